"""Annotation monitor (C08): execute every annotated value and compare with its declaration.

Top-level graph, function bodies (standalone models fed with the tensors observed at
the call site, recursively) and If / Loop bodies (a small driver runs the body graph
per branch / per iteration with captured outer values fed from observed tensors; the
driver's final carried values are cross-checked against ORT's own execution).
"""

from __future__ import annotations

from typing import Any

import numpy as np
import onnx
from onnx import TensorProto, helper

from vlib import modelwalk, ortrun

MAX_ITERS = 12


def _np_to_vi(name: str, arr: np.ndarray) -> onnx.ValueInfoProto:
    arr = np.asarray(arr)
    return helper.make_tensor_value_info(name, helper.np_dtype_to_tensor_dtype(arr.dtype), list(arr.shape))


def _free_names(graph: onnx.GraphProto) -> set[str]:
    """Names a (sub)graph reads from enclosing scopes."""
    defined = {i.name for i in graph.input} | {t.name for t in graph.initializer}
    free: set[str] = set()
    for node in graph.node:
        for inp in node.input:
            if inp and inp not in defined:
                free.add(inp)
        for _, sg in modelwalk.node_subgraphs(node):
            for n in _free_names(sg):
                if n not in defined:
                    free.add(n)
        for o in node.output:
            if o:
                defined.add(o)
    for o in graph.output:
        if o.name and o.name not in defined:
            free.add(o.name)
    return free


class Monitor:
    def __init__(self, model: onnx.ModelProto) -> None:
        self.model = model
        self.fn_by_key = {(f.domain, f.name): f for f in model.functions}
        self.problems: list[dict[str, str]] = []
        self.stats: dict[str, int] = {}
        self.user_binding: dict[str, int] = {}

    def bump(self, k: str, n: int = 1) -> None:
        self.stats[k] = self.stats.get(k, 0) + n

    # ------------------------------------------------------------------
    def _standalone(self, nodes, inits, inputs: dict[str, np.ndarray], outputs: list[str]) -> onnx.ModelProto:
        g = helper.make_graph(
            list(nodes),
            "g",
            [_np_to_vi(n, a) for n, a in inputs.items()],
            [helper.make_empty_tensor_value_info(o) for o in outputs],
            initializer=list(inits),
        )
        m = helper.make_model(g, opset_imports=list(self.model.opset_import), functions=list(self.model.functions), ir_version=self.model.ir_version or 10)
        return m

    def _run(self, nodes, inits, inputs: dict[str, np.ndarray], outputs: list[str]) -> dict[str, np.ndarray] | None:
        outputs = list(dict.fromkeys(o for o in outputs if o))
        if not outputs:
            return {}
        m = self._standalone(nodes, inits, inputs, outputs)
        try:
            sess = ortrun.session(m)
            res = sess.run(None, {k: (v if np.asarray(v).ndim == 0 else np.ascontiguousarray(v)) for k, v in inputs.items()})
        except Exception as exc:  # noqa: BLE001
            self.bump("scope_not_executable_standalone")
            self.last_error = str(exc)[:200]
            return None
        return {o.name: np.asarray(r) for o, r in zip(sess.get_outputs(), res)}

    # ------------------------------------------------------------------
    def _compare(self, scope: str, vi: onnx.ValueInfoProto, arr: np.ndarray, enforce_symbols: bool) -> None:
        et = modelwalk.vi_elem_type(vi)
        shp = modelwalk.vi_shape(vi)
        self.bump("annotated_values_executed")
        if et:
            try:
                want = helper.tensor_dtype_to_np_dtype(et)
                if np.dtype(want) != arr.dtype and not (et == TensorProto.BFLOAT16):
                    self.problems.append({"kind": "dtype", "text": f"{scope}:{vi.name} declared {modelwalk.dtype_name(et)}, runtime produces {arr.dtype}"})
            except Exception:  # noqa: BLE001
                pass
        if shp is None:
            return
        if len(shp) != arr.ndim:
            self.problems.append({"kind": "rank", "text": f"{scope}:{vi.name} declared shape {shp}, runtime shape {tuple(arr.shape)}"})
            return
        for ax, (d, r) in enumerate(zip(shp, arr.shape)):
            if isinstance(d, int):
                self.bump("concrete_dims_checked")
                if d != r:
                    self.problems.append({"kind": "dim", "text": f"{scope}:{vi.name} axis {ax} declared {d}, runtime extent {r} (declared {shp}, runtime {tuple(arr.shape)})"})
            elif isinstance(d, str) and enforce_symbols and d in self.user_binding:
                self.bump("user_symbol_dims_checked")
                if self.user_binding[d] != r:
                    self.problems.append({"kind": "symbol", "text": f"{scope}:{vi.name} axis {ax} declared as the user symbol {d!r} (= {self.user_binding[d]} in this run), runtime extent {r}"})

    # ------------------------------------------------------------------
    def check_scope(self, scope: str, nodes, inits, value_infos, known: dict[str, np.ndarray], enforce_symbols: bool, depth: int = 0) -> dict[str, np.ndarray] | None:
        """Execute the scope with `known` as inputs; check annotations; descend."""
        if depth > 4:
            return None
        produced = {o for n in nodes for o in n.output if o}
        annotated = {vi.name: vi for vi in value_infos if vi.name in produced}
        want: set[str] = set(annotated)
        init_names = {t.name for t in inits}
        for node in nodes:
            is_fn = (node.domain, node.op_type) in self.fn_by_key
            if is_fn or node.op_type in ("If", "Loop"):
                want.update(i for i in node.input if i)
                want.update(o for o in node.output if o)
                for _, sg in modelwalk.node_subgraphs(node):
                    want.update(_free_names(sg))
        want = {w for w in want if w in produced or w in known or w in init_names}
        fetch = [w for w in want if w in produced or w in init_names]
        obs = self._run(nodes, inits, known, fetch)
        if obs is None:
            return None
        obs = {**known, **obs}
        for name, vi in annotated.items():
            if name in obs:
                self._compare(scope, vi, obs[name], enforce_symbols)
        # descend
        for idx, node in enumerate(nodes):
            key = (node.domain, node.op_type)
            if key in self.fn_by_key:
                f = self.fn_by_key[key]
                actual = {}
                ok = True
                for formal, act in zip(f.input, node.input):
                    if not act:
                        continue
                    if act not in obs:
                        ok = False
                        break
                    actual[formal] = obs[act]
                if not ok:
                    self.bump("function_call_inputs_not_observable")
                    continue
                self.bump("function_bodies_executed")
                self.check_scope(f"fn:{f.name}", list(f.node), [], list(f.value_info), actual, False, depth + 1)
            elif node.op_type == "If":
                for an, sg in modelwalk.node_subgraphs(node):
                    free = _free_names(sg)
                    if not all(n in obs for n in free):
                        self.bump("if_branch_captures_not_observable")
                        continue
                    self.bump("if_branches_executed")
                    inner_known = {n: obs[n] for n in free}
                    self.check_scope(f"{scope}/If#{idx}.{an}", list(sg.node), list(sg.initializer), list(sg.value_info) + list(sg.output), inner_known, enforce_symbols, depth + 1)
            elif node.op_type == "Loop":
                self._drive_loop(scope, idx, node, obs, enforce_symbols, depth)
            elif node.op_type == "Scan":
                self.bump("scan_nodes_not_driven")
        return obs

    # ------------------------------------------------------------------
    def _drive_loop(self, scope: str, idx: int, node: onnx.NodeProto, obs: dict[str, np.ndarray], enforce_symbols: bool, depth: int) -> None:
        body = next(sg for _, sg in modelwalk.node_subgraphs(node))
        free = _free_names(body)
        if not all(n in obs for n in free) or not all((not i) or i in obs for i in node.input):
            self.bump("loop_captures_not_observable")
            return
        M = int(np.asarray(obs[node.input[0]]).reshape(-1)[0]) if node.input[0] else None
        cond = bool(np.asarray(obs[node.input[1]]).reshape(-1)[0]) if len(node.input) > 1 and node.input[1] else True
        carried = [obs[i] for i in node.input[2:]]
        n_carried = len(carried)
        b_in = [i.name for i in body.input]
        b_out = [o.name for o in body.output]
        it = 0
        scans: list[list[np.ndarray]] = [[] for _ in b_out[1 + n_carried:]]
        while cond and (M is None or it < M) and it < MAX_ITERS:
            known = {n: obs[n] for n in free}
            known[b_in[0]] = np.asarray(it, dtype=np.int64)
            known[b_in[1]] = np.asarray(cond, dtype=np.bool_)
            for nm, v in zip(b_in[2:], carried):
                known[nm] = np.asarray(v)
            # body outputs that are plain pass-throughs of inputs cannot be fetched as node outputs
            inner = self.check_scope(f"{scope}/Loop#{idx}.body@iter{it}", list(body.node), list(body.initializer), list(body.value_info) + list(body.output), known, enforce_symbols, depth + 1)
            if inner is None:
                self.bump("loop_body_not_executable")
                return
            res = self._run(list(body.node), list(body.initializer), known, [o for o in b_out if o not in known])
            if res is None:
                return
            res = {**known, **res}
            self.bump("loop_iterations_driven")
            cond = bool(np.asarray(res[b_out[0]]).reshape(-1)[0])
            carried = [res[o] for o in b_out[1 : 1 + n_carried]]
            for k, o in enumerate(b_out[1 + n_carried:]):
                scans[k].append(res[o])
            it += 1
        if it == 0:
            self.bump("zero_trip_loops_seen")
        if it >= MAX_ITERS:
            self.bump("loop_driver_iteration_cap_reached")
            return
        # cross-check the driver against ORT's own execution of the Loop node
        for k, o in enumerate(node.output[:n_carried]):
            if o and o in obs:
                a, b = np.asarray(carried[k]), np.asarray(obs[o])
                if a.shape != b.shape or not np.allclose(a.astype(np.float64), b.astype(np.float64), rtol=1e-5, atol=1e-6, equal_nan=True):
                    self.bump("loop_driver_disagrees_with_ort(driver not trusted for this loop)")
                    return
        self.bump("loops_cross_checked_against_ort")


def annotation_problems(model: onnx.ModelProto, feed: dict[str, np.ndarray]) -> tuple[list[dict[str, str]], dict[str, int]]:
    mon = Monitor(model)
    g = model.graph
    init = {t.name for t in g.initializer}
    # binding of the user symbols in this run
    for vi in g.input:
        if vi.name in init or vi.name not in feed:
            continue
        shp = modelwalk.vi_shape(vi) or []
        for d, r in zip(shp, np.asarray(feed[vi.name]).shape):
            if isinstance(d, str):
                if d in mon.user_binding and mon.user_binding[d] != r:
                    mon.user_binding[d] = -1  # fed inconsistently by the harness: do not enforce
                else:
                    mon.user_binding.setdefault(d, int(r))
    mon.user_binding = {k: v for k, v in mon.user_binding.items() if v >= 0}
    known = {k: np.asarray(v) for k, v in feed.items()}
    # graph inputs themselves
    for vi in g.input:
        if vi.name in known:
            mon._compare("main(input)", vi, known[vi.name], True)
    mon.check_scope("main", list(g.node), list(g.initializer), list(g.value_info) + list(g.output), known, True)
    return mon.problems, mon.stats
