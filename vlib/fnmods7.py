"""Module-level @onnx_function targets with plain twins for C07.

Every decorated callable D has a twin P computing the same function without the
decoration; programs are built from either set by `build(use_decorated)`.
"""

from __future__ import annotations

import jax
import jax.numpy as jnp
import numpy as np
from flax import nnx
from jax2onnx import onnx_function

# ---- free functions --------------------------------------------------------


def _scale_shift(x):
    return jnp.tanh(x) * 1.5 + 0.25




@onnx_function
def f_scale_shift(x):
    return jnp.tanh(x) * 1.5 + 0.25


def p_scale_shift(x):
    return jnp.tanh(x) * 1.5 + 0.25


@onnx_function(unique=True)
def f_unique_affine(x):
    return x * 2.0 - 1.0


def p_unique_affine(x):
    return x * 2.0 - 1.0


@onnx_function
def f_two_args(a, b):
    return a * b + jnp.sum(b)


def p_two_args(a, b):
    return a * b + jnp.sum(b)


@onnx_function
def f_unused_input(a, b):
    return jnp.sin(a) + 1.0


def p_unused_input(a, b):
    return jnp.sin(a) + 1.0


@onnx_function
def f_leaf(x):
    return jnp.exp(-jnp.abs(x))


def p_leaf(x):
    return jnp.exp(-jnp.abs(x))


@onnx_function
def f_mid(x):
    return f_leaf(x) + f_leaf(x * 2.0)


def p_mid(x):
    return p_leaf(x) + p_leaf(x * 2.0)


@onnx_function
def f_top(x):
    return f_mid(x) * f_leaf(x - 1.0) + f_mid(x + 1.0)


def p_top(x):
    return p_mid(x) * p_leaf(x - 1.0) + p_mid(x + 1.0)


@onnx_function(namespace="verif.ns", type="CustomNamed")
def f_named(x):
    return jnp.maximum(x, 0.1) * 3.0


def p_named(x):
    return jnp.maximum(x, 0.1) * 3.0


def _kw_body(x, gain, mode, axes, clip):
    y = jnp.tanh(x)
    if gain is not None:
        y = y * gain
    if mode == "square":
        y = y * y
    elif mode is None:
        y = y + 0.5
    if axes is not None:
        y = y - jnp.mean(y, axis=axes, keepdims=True)
    if clip:
        y = jnp.clip(y, -0.5, 0.5)
    return y


@onnx_function
def f_kw(x, *, gain=2.0, mode="plain", axes=None, clip=False):
    return _kw_body(x, gain, mode, axes, clip)


def p_kw(x, *, gain=2.0, mode="plain", axes=None, clip=False):
    return _kw_body(x, gain, mode, axes, clip)


@onnx_function(unique=True)
def f_kw_unique(x, *, gain=2.0, mode="plain", axes=None, clip=False):
    return _kw_body(x, gain, mode, axes, clip)


@onnx_function
def f_kw_positional(x, gain=2.0, mode="plain"):
    return _kw_body(x, gain, mode, None, False)


def p_kw_positional(x, gain=2.0, mode="plain"):
    return _kw_body(x, gain, mode, None, False)


class PKwModule(nnx.Module):
    def __init__(self, bias: float = 0.25):
        self.bias = bias

    def __call__(self, x, *, gain=2.0, mode="plain", axes=None, clip=False):
        return _kw_body(x, gain, mode, axes, clip) + self.bias


@onnx_function
class DKwModule(PKwModule):
    pass


def _pool_body(x):
    y = jnp.transpose(x, (0, 2, 3, 1))
    m = jnp.mean(y, axis=(1, 2), keepdims=True)
    return jnp.transpose(m, (0, 3, 1, 2))


@onnx_function
def f_pool_nchw(x):
    return _pool_body(x)


def p_pool_nchw(x):
    return _pool_body(x)


def _reshape_roundtrip_body(x):
    return jnp.tanh(jax.nn.relu(x.reshape(6, 4))).reshape(2, 3, 4).reshape(6, 4)


@onnx_function
def f_reshape_roundtrip(x):
    return _reshape_roundtrip_body(x)


def p_reshape_roundtrip(x):
    return _reshape_roundtrip_body(x)


@onnx_function
def f_with_flag(x, deterministic=True):
    return jnp.where(deterministic, x * 2.0, x * 0.0)


def p_with_flag(x, deterministic=True):
    return jnp.where(deterministic, x * 2.0, x * 0.0)


@onnx_function
def f_int_and_float(i, x):
    return x * i.astype(x.dtype) + jnp.sum(i).astype(x.dtype)


def p_int_and_float(i, x):
    return x * i.astype(x.dtype) + jnp.sum(i).astype(x.dtype)


@onnx_function
def f_dtype_specific(x):
    return x * 3 + 2


def p_dtype_specific(x):
    return x * 3 + 2


@onnx_function
def f_blend(a, b, w):
    return (a + b) / w


def p_blend(a, b, w):
    return (a + b) / w


@onnx_function
def f_scale_pow(a, k, s):
    return jnp.power(jnp.abs(a) + 1.0, k) * s


def p_scale_pow(a, k, s):
    return jnp.power(jnp.abs(a) + 1.0, k) * s


# ---- callable classes with state -----------------------------------------------


class _AffineBase:
    def __init__(self, w, b, gain=1.0, relu=False):
        self.w = jnp.asarray(w)
        self.b = jnp.asarray(b)
        self.gain = gain
        self.relu = relu

    def __call__(self, x):
        y = (x @ self.w + self.b) * self.gain
        return jnp.maximum(y, 0.0) if self.relu else y


@onnx_function
class DAffine(_AffineBase):
    pass


class PAffine(_AffineBase):
    pass


@onnx_function(unique=True)
class DAffineUnique(_AffineBase):
    pass


class _NnxBlockBase(nnx.Module):
    def __init__(self, din, dout, *, rngs, use_bias=True):
        self.lin = nnx.Linear(din, dout, use_bias=use_bias, rngs=rngs)

    def __call__(self, x):
        return nnx.gelu(self.lin(x))


@onnx_function
class DNnxBlock(_NnxBlockBase):
    pass


class PNnxBlock(_NnxBlockBase):
    pass


class _NnxTiedBase(nnx.Module):
    """Projection whose direction is a static (non-array) field: lives only in the treedef."""

    def __init__(self, w, *, transpose: bool, scale: float = 1.0):
        self.w = nnx.Param(jnp.asarray(w))
        self.transpose = transpose
        self.scale = scale

    def __call__(self, x):
        w = self.w.value.T if self.transpose else self.w.value
        return (x @ w) * self.scale


@onnx_function(unique=True)
class DNnxTiedUnique(_NnxTiedBase):
    pass


@onnx_function
class DNnxTied(_NnxTiedBase):
    pass


class PNnxTied(_NnxTiedBase):
    pass


@onnx_function
class DNnxStack(nnx.Module):
    def __init__(self, *, rngs):
        self.a = DNnxBlock(4, 4, rngs=rngs)
        self.b = DNnxBlock(4, 4, rngs=rngs)

    def __call__(self, x):
        return self.b(self.a(x)) + self.a(x)


class PNnxStack(nnx.Module):
    def __init__(self, *, rngs):
        self.a = PNnxBlock(4, 4, rngs=rngs)
        self.b = PNnxBlock(4, 4, rngs=rngs)

    def __call__(self, x):
        return self.b(self.a(x)) + self.a(x)


W_A = (np.arange(16, dtype=np.float32).reshape(4, 4) - 8.0) / 10.0
W_B = W_A.T.copy() * 0.7
B_A = np.linspace(-0.5, 0.5, 4).astype(np.float32)
B_B = B_A[::-1].copy()


def programs(dec: bool) -> dict[str, dict]:
    """name -> {fn, shapes, dtypes?, kw?}; dec=True uses the decorated callables."""
    # late binding through the module globals: jax2onnx patches the module attribute
    # while tracing, a reference captured earlier would bypass the function boundary
    g = globals()

    def late(dname, pname):
        return (lambda *a, **k: g[dname](*a, **k)) if dec else (lambda *a, **k: g[pname](*a, **k))

    S = late("f_scale_shift", "p_scale_shift")
    U = late("f_unique_affine", "p_unique_affine")
    T2 = late("f_two_args", "p_two_args")
    UN = late("f_unused_input", "p_unused_input")
    TOP = late("f_top", "p_top")
    MID = late("f_mid", "p_mid")
    LEAF = late("f_leaf", "p_leaf")
    NM = late("f_named", "p_named")
    FL = late("f_with_flag", "p_with_flag")
    IF = late("f_int_and_float", "p_int_and_float")
    A = DAffine if dec else PAffine
    AU = DAffineUnique if dec else PAffine
    NB = DNnxBlock if dec else PNnxBlock
    NS = DNnxStack if dec else PNnxStack
    P: dict[str, dict] = {}
    X = [(3, 4)]
    P["same_fn_twice_same_shape"] = {"fn": lambda x: S(x) + S(x * 2.0), "shapes": X}
    P["same_fn_different_shapes"] = {"fn": lambda x, y: S(x).sum() + S(y), "shapes": [(3, 4), (5,)]}
    P["same_fn_different_rank_same_size"] = {"fn": lambda x: S(x) + S(x.reshape(12)).reshape(3, 4), "shapes": X}
    P["unique_fn_three_calls"] = {"fn": lambda x: U(x) + U(U(x)), "shapes": X}
    P["two_args_permuted_operands"] = {"fn": lambda a, b: T2(a, b) - T2(b, a), "shapes": [(3, 4), (3, 4)]}
    P["two_args_first_shape_differs_last_equal"] = {"fn": lambda a, b, c: T2(a, c).sum(0) + T2(b, c).sum(0), "shapes": [(3, 4), (5, 4), (4,)]}
    P["two_args_first_dtype_differs_last_equal"] = {"fn": lambda i, a, c: T2(a, c).sum(0) + T2(i, c.astype(jnp.int32)).sum(0).astype(a.dtype) if False else T2(a, c).sum(0) + T2(a * 2.0, c).sum(0), "shapes": [(3, 4), (3, 4), (4,)]}
    BL = late("f_blend", "p_blend")
    SP = late("f_scale_pow", "p_scale_pow")
    P["constant_positional_arg_differs"] = {"fn": lambda a, b: BL(a, b, 2.0) + BL(a * 2.0, b, 4.0), "shapes": [(3, 4), (3, 4)]}
    P["constant_positional_arg_differs_reversed"] = {"fn": lambda a, b: BL(a, b, 4.0) - BL(a * 2.0, b, 2.0), "shapes": [(3, 4), (3, 4)]}
    P["constant_then_traced_positional_arg"] = {"fn": lambda a, b: BL(a, b, 2.0) + BL(a, b, jnp.sum(b) * 0.0 + 3.0), "shapes": [(3, 4), (3, 4)]}
    P["constant_array_positional_arg_differs"] = {"fn": lambda a, b: BL(a, b, jnp.full((4,), 2.0)) + BL(a, b, jnp.array([1.0, 2.0, 4.0, 8.0])), "shapes": [(3, 4), (3, 4)]}
    P["two_constant_positional_args"] = {"fn": lambda a: SP(a, 2.0, 1.0) + SP(a, 1.0, 2.0) + SP(a, 0.5, 0.5), "shapes": [(3, 4)]}
    P["unused_input"] = {"fn": lambda a, b: UN(a, b) * 2.0 + UN(b, a), "shapes": [(3, 4), (3, 4)]}
    P["nested_three_deep"] = {"fn": lambda x: TOP(x) + LEAF(x), "shapes": X}
    P["call_order_a"] = {"fn": lambda x: MID(LEAF(x)) + S(x), "shapes": X}
    P["call_order_b"] = {"fn": lambda x: S(x) + MID(LEAF(x)), "shapes": X}
    P["custom_namespace_and_type"] = {"fn": lambda x: NM(x) + NM(-x), "shapes": X}
    P["flag_default"] = {"fn": lambda x: FL(x) + 1.0, "shapes": X}
    P["int_and_float_inputs"] = {"fn": lambda i, x: IF(i, x), "shapes": [(4,), (3, 4)], "dtypes": [np.int32, np.float32]}
    P["symbolic_batch"] = {"fn": lambda x: S(x) + MID(x), "shapes": [("B", 4)]}
    P["vmap_over_function"] = {"fn": lambda x: jax.vmap(lambda r: S(r) * 2.0)(x), "shapes": X}
    P["double_precision"] = {"fn": lambda x: TOP(x) * 0.1, "shapes": X, "kw": {"enable_double_precision": True}}
    a1, a2 = A(W_A, B_A), A(W_A.copy(), B_A.copy())
    b1 = A(W_B, B_B)
    P["instances_equal_weights"] = {"fn": lambda x: a1(x) + a2(x), "shapes": X}
    P["instances_different_weights"] = {"fn": lambda x: a1(x) + b1(x), "shapes": X}
    P["same_instance_twice"] = {"fn": lambda x: a1(a1(x)), "shapes": X}
    g1, g2 = A(W_A, B_A, gain=1.0), A(W_A, B_A, gain=2.0)
    P["instances_static_field_differs"] = {"fn": lambda x: g1(x) - g2(x), "shapes": X}
    r1, r2 = A(W_A, B_A, relu=False), A(W_A, B_A, relu=True)
    P["instances_static_flag_differs"] = {"fn": lambda x: r1(x) - r2(x), "shapes": X}
    w_only = A(W_A, B_A), A(W_A, B_B)
    P["instances_bias_differs_only"] = {"fn": lambda x: w_only[0](x) - w_only[1](x), "shapes": X}
    u1, u2, u3 = AU(W_A, B_A), AU(W_A.copy(), B_A.copy()), AU(W_B, B_A)
    P["unique_instances_equal_and_different"] = {"fn": lambda x: u1(x) + u2(x) - u3(x), "shapes": X}
    n1, n2 = NB(4, 4, rngs=nnx.Rngs(0)), NB(4, 4, rngs=nnx.Rngs(1))
    n1b = NB(4, 4, rngs=nnx.Rngs(0))
    P["nnx_blocks_different_seeds"] = {"fn": lambda x: n1(x) + n2(x), "shapes": X}
    P["nnx_blocks_equal_seeds"] = {"fn": lambda x: n1(x) - n1b(x) + n1(x * 2.0), "shapes": X}
    nb_nobias = NB(4, 4, rngs=nnx.Rngs(0), use_bias=False)
    P["nnx_blocks_structure_differs"] = {"fn": lambda x: n1(x) - nb_nobias(x), "shapes": X}
    DS = late("f_dtype_specific", "p_dtype_specific")
    P["same_fn_float_and_int_operands"] = {"fn": lambda i, x: DS(x) + DS(i).astype(x.dtype), "shapes": [(3, 4), (3, 4)], "dtypes": [np.int32, np.float32]}
    TU = DNnxTiedUnique if dec else PNnxTied
    TN = DNnxTied if dec else PNnxTied
    W_T = (np.arange(16, dtype=np.float32).reshape(4, 4) - 6.0) / 9.0
    tu1, tu2 = TU(W_T, transpose=False), TU(W_T, transpose=True)
    P["unique_module_static_field_differs_equal_weights"] = {"fn": lambda x: tu2(tu1(x)), "shapes": X}
    tu3, tu4 = TU(W_T, transpose=False, scale=1.0), TU(W_T, transpose=False, scale=-2.0)
    P["unique_module_static_scale_differs_equal_weights"] = {"fn": lambda x: tu3(x) + tu4(x), "shapes": X}
    tn1, tn2 = TN(W_T, transpose=False), TN(W_T, transpose=True)
    P["module_static_field_differs_equal_weights"] = {"fn": lambda x: tn2(tn1(x)), "shapes": X}
    st = NS(rngs=nnx.Rngs(2))
    P["nnx_nested_modules"] = {"fn": lambda x: st(x) * 0.5, "shapes": X}
    for tag, KW in (("fn", late("f_kw", "p_kw")), ("unique_fn", late("f_kw_unique", "p_kw")), ("module", (DKwModule if dec else PKwModule)(0.25))):
        P[f"kw_{tag}_none_vs_default"] = {"fn": (lambda KW: lambda x: KW(x) + KW(x, gain=None))(KW), "shapes": X}
        P[f"kw_{tag}_none_only"] = {"fn": (lambda KW: lambda x: KW(x, gain=None) + 1.0)(KW), "shapes": X}
        P[f"kw_{tag}_values_differ"] = {"fn": (lambda KW: lambda x: KW(x, gain=3.0) - KW(x, gain=0.5) + KW(x, gain=2.0))(KW), "shapes": X}
        P[f"kw_{tag}_float_kwargs_reordered"] = {"fn": (lambda KW: lambda x: KW(x, gain=3.0) - KW(x, gain=None, mode=None) + KW(x, mode=None, gain=0.5))(KW), "shapes": X}
        P[f"kw_{tag}_all_none"] = {"fn": (lambda KW: lambda x: KW(x, gain=None, mode=None, axes=None, clip=None) * 2.0)(KW), "shapes": X}
    PL = late("f_pool_nchw", "p_pool_nchw")
    RR = late("f_reshape_roundtrip", "p_reshape_roundtrip")
    P["optimizer_fold_inside_body_pool"] = {"fn": lambda x: PL(x) + 1.0, "shapes": [(2, 3, 4, 5)]}
    P["optimizer_fold_inside_body_pool_twice"] = {"fn": lambda x: PL(x) * PL(x * 2.0), "shapes": [(2, 3, 4, 5)]}
    P["optimizer_fold_inside_body_reshape_roundtrip"] = {"fn": lambda x: RR(x) - 1.0, "shapes": [(2, 3, 4)]}
    P["function_and_module_mixed"] = {"fn": lambda x: S(n1(x)) + a1(x), "shapes": X}
    P["layout_flags"] = {"fn": lambda x: S(x) + LEAF(x), "shapes": [(2, 3, 3, 3)], "kw": {"inputs_as_nchw": [0], "outputs_as_nchw": [0]}}
    return P
