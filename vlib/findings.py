"""Known-findings file: mechanism-keyed, never written at run time."""

from __future__ import annotations

import fnmatch
import json
import os
from typing import Any

from vlib.substrate import VERIF

PATH = os.path.join(VERIF, "known_findings.json")


def load(property_id: str) -> list[dict[str, Any]]:
    if not os.path.exists(PATH):
        return []
    data = json.load(open(PATH))
    return [f for f in data.get("findings", []) if f.get("property") == property_id]


def match(violation: dict[str, Any], entries: list[dict[str, Any]]) -> dict[str, Any] | None:
    """An entry matches iff status == known, same family and kind, and the
    violation's class / call form is one of the entry's listed classes."""
    for e in entries:
        if e.get("status") != "known":
            continue
        if "family_glob" in e:
            if not fnmatch.fnmatchcase(str(violation.get("family")), str(e["family_glob"])):
                continue
        elif e.get("family") != violation.get("family"):
            continue
        kinds = e.get("kind")
        kinds = kinds if isinstance(kinds, list) else [kinds]
        if not any(fnmatch.fnmatchcase(str(violation.get("kind")), str(k)) for k in kinds):
            continue
        prog_pat = e.get("program")
        if prog_pat is not None and not fnmatch.fnmatchcase(str(violation.get("program", "")), prog_pat):
            continue
        msg_pat = e.get("message")
        if msg_pat is not None and not fnmatch.fnmatchcase(str(violation.get("text", "")).replace("\n", " "), msg_pat):
            continue
        classes = e.get("classes")
        if classes is not None and not any(
            fnmatch.fnmatchcase(str(violation.get("cls")), pat) for pat in classes
        ):
            continue
        return e
    return None
