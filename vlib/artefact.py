"""Artefact predicates shared by C03 / C11 / C16: is this ModelProto well-formed?"""

from __future__ import annotations

from typing import Any

import onnx

from vlib import modelwalk, ortrun


def validity_problems(model: onnx.ModelProto, *, ort_load: bool = True, structure: bool = True) -> tuple[list[dict[str, str]], dict[str, int]]:
    """Returns (problems, observations). problems: [{"kind", "text"}]."""
    problems: list[dict[str, str]] = []
    obs: dict[str, int] = {}
    try:
        onnx.checker.check_model(model, full_check=True)
        obs["checker_ok"] = 1
    except Exception as exc:  # noqa: BLE001
        problems.append({"kind": "checker", "text": f"{type(exc).__name__}: {str(exc)[:400]}"})
    try:
        onnx.shape_inference.infer_shapes(model, strict_mode=True, check_type=True)
        obs["strict_inference_ok"] = 1
    except Exception as exc:  # noqa: BLE001
        problems.append({"kind": "strict_inference", "text": f"{type(exc).__name__}: {str(exc)[:400]}"})
    if structure:
        sp = modelwalk.structural_problems(model)
        obs["structure_walked"] = 1
        for p in sp[:5]:
            problems.append({"kind": "structure:" + p["rule"], "text": f"{p['where']}: {p['what']}"})
    if ort_load:
        try:
            ortrun.session(model)
            obs["ort_load_ok"] = 1
        except ortrun.OrtEnvLimit:
            obs["ort_env_limit"] = 1
        except ortrun.OrtLoadError as exc:
            problems.append({"kind": "ort_load", "text": str(exc)[:400]})
    return problems, obs


def count_model(model: onnx.ModelProto) -> dict[str, int]:
    n_nodes = sum(1 for _ in modelwalk.iter_all_nodes(model))
    n_graphs = sum(1 for _ in modelwalk.iter_all_graphs(model))
    return {"nodes": n_nodes, "subgraphs": n_graphs - 1, "functions": len(model.functions)}
