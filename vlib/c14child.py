"""Child process of C14: export a list of requests under one configuration and
print {request id: sha256 of the deterministic serialisation}."""

from __future__ import annotations

import hashlib
import json
import logging
import os
import sys


def main() -> int:
    cfg = json.loads(sys.argv[1])
    logging.disable(logging.CRITICAL)
    import numpy as np

    rng = np.random.default_rng(cfg.get("order_seed", 0))
    if cfg.get("shuffle_plugin_imports"):
        import importlib
        import pathlib

        import jax2onnx.plugins as plg

        root = pathlib.Path(plg.__file__).parent
        mods = []
        for py in sorted(root.rglob("*.py")):
            if py.name in ("__init__.py", "plugin_system.py") or "__pycache__" in py.parts:
                continue
            rel = py.relative_to(root).with_suffix("")
            mods.append("jax2onnx.plugins." + ".".join(rel.parts))
        perm = rng.permutation(len(mods))
        for i in perm:
            try:
                importlib.import_module(mods[int(i)])
            except Exception:  # noqa: BLE001
                pass
    from vlib import graphgen, programs, registry

    # The registry's example models are module-level objects of the plugin files, created when
    # the plugins are first imported.  jax2onnx imports them lazily inside the first to_onnx call,
    # so a history that *starts* with a double-precision export would build float64 example
    # weights: a different request, not a different answer to the same request.  Load them now.
    reqs = list(cfg["requests"])
    only_own = all(r.startswith(("hand:", "graph:")) for r in reqs)
    if not (cfg.get("no_preload") and only_own):
        registry.corpus()
    if cfg.get("first_double") and only_own:
        # the process's very first conversion (which also imports the plugins) runs in double precision
        import jax.numpy as _jnp
        from jax2onnx import to_onnx as _to_onnx

        _to_onnx(lambda x: _jnp.tanh(x) * 2.0, [(2, 3)], enable_double_precision=True)
    order = cfg.get("order", "forward")
    if order == "reversed":
        reqs = reqs[::-1]
    elif order == "shuffled":
        reqs = [reqs[int(i)] for i in rng.permutation(len(reqs))]
    out: dict[str, list[str]] = {}

    def digest(m) -> str:
        return hashlib.sha256(m.SerializeToString(deterministic=True)).hexdigest()

    def one(req: str) -> str:
        if req.startswith("graph:"):
            import onnx_ir as ir
            from jax2onnx.converter import ir_optimizations as iro

            recipe = cfg["recipes"][req]
            irm = ir.from_proto(graphgen.build(recipe))
            iro.optimize_graph(irm)
            return digest(ir.to_proto(irm))
        if req.startswith("hand:"):
            from checks import c14

            return digest(c14.hand_export(req[5:]))
        tp = registry.by_pid(req)
        return digest(programs.from_registry(tp).export())

    def noise(i: int) -> None:
        """Unrelated conversions between the requests: other precision, other opset, failures."""
        import jax.numpy as jnp
        from jax2onnx import to_onnx

        k = i % 6
        try:
            if k == 5:
                from vlib import fnmods
                to_onnx(fnmods.c14_gated_failing, [(2, 3)])
                return
            if k == 0:
                to_onnx(lambda x: jnp.tanh(x) * 2, [("B", 3)], enable_double_precision=True)
            elif k == 1:
                to_onnx(lambda x: jnp.transpose(jnp.maximum(jnp.transpose(x, (0, 3, 1, 2)), 0.0), (0, 2, 3, 1)), [(2, 3, 3, 3)], opset=21)
            elif k == 2:
                def boom(x):
                    raise RuntimeError("failing conversion in the history")
                to_onnx(boom, [(3,)])
            elif k == 3:
                from vlib import fnmods
                to_onnx(fnmods.c13_outer, [("N", 3)])
            else:
                from jax import lax
                to_onnx(lambda x: lax.fori_loop(0, 2, lambda i, v: v + 1, x), [(3,)], opset=24)
        except Exception:  # noqa: BLE001
            pass

    if cfg.get("warm_history"):
        for i in range(12):
            noise(i)
    for i, req in enumerate(reqs):
        # a jit-cached helper is exported three times in a row in every configuration
        for r in range(max(cfg.get("repeat", 1), 3) if req.startswith("hand:jitzoo") else cfg.get("repeat", 1)):
            try:
                d = one(req)
            except Exception as exc:  # noqa: BLE001
                d = f"EXC:{type(exc).__name__}"
            out.setdefault(req, []).append(d)
        if cfg.get("interleave_noise"):
            noise(i)
    print("C14RESULT " + json.dumps(out))
    return 0


if __name__ == "__main__":
    sys.exit(main())
