import sys

from vlib.substrate import worker_main

if __name__ == "__main__":
    sys.exit(worker_main(sys.argv[1:]))
