"""Turning differential results into check records."""

from __future__ import annotations

import os
import re
from typing import Any

import numpy as np

from vlib import programs


def only_filter(cases: list[dict[str, Any]]) -> list[dict[str, Any]]:
    pat = os.environ.get("VERIF_ONLY")
    if not pat:
        return cases
    rx = re.compile(pat)
    return [c for c in cases if rx.search(c["key"])]


def arrays_brief(xs: list[np.ndarray] | None) -> list[Any]:
    out = []
    for x in xs or []:
        x = np.asarray(x)
        out.append({"dtype": str(x.dtype), "shape": list(x.shape), "head": x.ravel()[:6].tolist()})
    return out


def record_from_differential(prog: programs.Program, res: dict[str, Any], tag: str = "") -> dict[str, Any]:
    rec: dict[str, Any] = {"evals": 0, "nontrivial": [], "violations": [], "obs": dict(res.get("obs", {}))}
    if res.get("export_error"):
        rec["status"] = "inconclusive"
        rec["reason"] = "export_raises"
        rec["detail"] = res["export_error"]
        return rec
    if res.get("random"):
        rec["status"] = "skipped"
        rec["reason"] = "nondeterministic_by_construction"
        return rec
    if res.get("env_limit"):
        rec["status"] = "inconclusive"
        rec["reason"] = "ort_env_limit"
        rec["detail"] = res["env_limit"]
        return rec
    if res.get("load_error"):
        rec["status"] = "violated"
        rec["violations"].append(
            {
                "family": prog.family,
                "program": prog.pid,
                "kind": "load",
                "cls": "any",
                "text": f"{prog.pid}: ONNX Runtime refuses the model: {res['load_error'][:300]}",
            }
        )
        return rec
    status = "held"
    sample = None
    for r in res["results"]:
        if r.status in ("agree", "violation", "isolated_discretisation"):
            rec["evals"] += 1
        if r.status == "agree" and r.cmp is not None and r.cmp.n_compared > 0:
            rec["nontrivial"].append(f"{prog.pid}|{tag}{r.cls}")
            if sample is None:
                sample = {"program": prog.pid, "class": r.cls, "inputs": arrays_brief(r.xs), "elements_compared": r.cmp.n_compared}
        if r.status == "violation":
            status = "violated"
            rec["violations"].append(
                {
                    "family": prog.family,
                    "program": prog.pid,
                    "kind": r.cmp.kind if r.cmp is not None else "value",
                    "cls": r.cls,
                    "text": f"{prog.pid} [{tag}{r.cls}]: {r.text or (r.cmp.text if r.cmp else '')}",
                    "detail": {"inputs": arrays_brief(r.xs)},
                }
            )
    rec["status"] = status
    if sample:
        rec["sample"] = sample
    return rec
