"""Namespace / host-state snapshots for C13."""

from __future__ import annotations

import inspect
import sys
import types
from typing import Any

WATCH_PREFIXES = ("jax", "jaxlib", "flax", "equinox", "dm_pix", "einops", "optax", "jaxtyping", "orbax", "chex")
IGNORE_ATTRS = {
    "__annotations__", "__dict__", "__weakref__", "__doc__", "__builtins__", "__cached__", "__loader__", "__spec__",
    "__abstractmethods__", "_abc_impl", "__parameters__", "__orig_bases__", "__signature__", "__text_signature__", "__match_args__",
    "__dataclass_fields__", "__dataclass_params__", "__slotnames__", "__firstlineno__", "__static_attributes__",
}


def _watched(name: str) -> bool:
    return any(name == p or name.startswith(p + ".") for p in WATCH_PREFIXES)


def snapshot() -> dict[tuple[str, str], int]:
    """{(owner, attribute): id(resolved object)} for every attribute of every watched
    module and of every class defined in a watched module (resolved along the MRO)."""
    snap: dict[tuple[str, str], int] = {}
    classes: dict[int, type] = {}
    for modname, mod in list(sys.modules.items()):
        if mod is None or not _watched(modname) or not isinstance(mod, types.ModuleType):
            continue
        try:
            items = list(vars(mod).items())
        except Exception:  # noqa: BLE001
            continue
        for attr, obj in items:
            if attr in IGNORE_ATTRS:
                continue
            snap[("M:" + modname, attr)] = id(obj)
            if isinstance(obj, type):
                om = getattr(obj, "__module__", "") or ""
                if _watched(om):
                    classes[id(obj)] = obj
    for cls in classes.values():
        owner = f"C:{cls.__module__}.{cls.__qualname__}"
        try:
            names = dir(cls)
        except Exception:  # noqa: BLE001
            continue
        for attr in names:
            if attr in IGNORE_ATTRS:
                continue
            try:
                obj = inspect.getattr_static(cls, attr)
            except Exception:  # noqa: BLE001
                continue
            snap[(owner, attr)] = id(obj)
    return snap


def _immutable_scalar(a: Any) -> bool:
    return isinstance(a, (int, float, bool, str, bytes, type(None), tuple, frozenset))


def diff(before: dict[tuple[str, str], int], after: dict[tuple[str, str], int], churn: set[tuple[str, str]] | None = None, limit: int = 12) -> list[str]:
    churn = churn or set()
    out: list[str] = []
    for key, oid in before.items():
        if key in churn:
            continue
        nid = after.get(key)
        if nid is None:
            # owner gone entirely (module unloaded) is not a jax2onnx effect we can attribute
            if any(k[0] == key[0] for k in after):
                out.append(f"{key[0]}.{key[1]} vanished")
        elif nid != oid:
            out.append(f"{key[0]}.{key[1]} resolves to a different object")
        if len(out) >= limit:
            return out
    known_owners = {k[0] for k in before}
    for key in after:
        if key in before or key in churn:
            continue
        if key[0] not in known_owners:
            continue  # freshly imported module / newly seen class
        owner, attr = key
        if owner.startswith("M:"):
            mod = sys.modules.get(owner[2:])
            obj = getattr(mod, attr, None) if mod is not None else None
            if isinstance(obj, types.ModuleType):
                continue  # freshly imported submodule
        out.append(f"{owner}.{attr} appeared")
        if len(out) >= limit:
            break
    return out


def churn_keys(before: dict[tuple[str, str], int], after: dict[tuple[str, str], int]) -> set[tuple[str, str]]:
    keys = set()
    for k, v in before.items():
        if after.get(k) != v:
            keys.add(k)
    for k in after:
        if k not in before:
            keys.add(k)
    return keys


def jax2onnx_idle_problems() -> list[str]:
    from jax2onnx.plugins import plugin_system as ps

    out = []
    st = getattr(ps, "_PATCH_STATE", None)
    if st:
        out.append(f"_PATCH_STATE still holds {len(st)} entries, e.g. {[(getattr(k[0], '__name__', repr(k[0])[:40]), k[1]) for k in list(st)[:3]]}")
    for nm in ("_IN_FUNCTION_BUILD", "_ONNX_FN_HITS"):
        cv = getattr(ps, nm, None)
        if cv is not None:
            try:
                v = cv.get()
                if v and nm == "_IN_FUNCTION_BUILD":
                    out.append(f"{nm} = {sorted(v)[:3]} after the call")
            except LookupError:
                pass
    return out
