"""Independent recursive walker over ModelProto (no onnx_ir, no repo helpers)."""

from __future__ import annotations

from typing import Any, Iterator

import onnx
from onnx import AttributeProto, TensorProto

STD_DOMAINS = ("", "ai.onnx")


def node_subgraphs(node: onnx.NodeProto) -> Iterator[tuple[str, onnx.GraphProto]]:
    for a in node.attribute:
        if a.type == AttributeProto.GRAPH:
            yield a.name, a.g
        elif a.type == AttributeProto.GRAPHS:
            for i, g in enumerate(a.graphs):
                yield f"{a.name}[{i}]", g


def iter_graph_nodes(graph: onnx.GraphProto, path: str = "") -> Iterator[tuple[str, onnx.NodeProto]]:
    for i, node in enumerate(graph.node):
        p = f"{path}/{node.op_type}#{i}"
        yield p, node
        for an, g in node_subgraphs(node):
            yield from iter_graph_nodes(g, f"{p}.{an}")


def iter_all_nodes(model: onnx.ModelProto) -> Iterator[tuple[str, onnx.NodeProto]]:
    yield from iter_graph_nodes(model.graph, "main")
    for f in model.functions:
        fp = f"fn:{f.domain}::{f.name}"
        for i, node in enumerate(f.node):
            p = f"{fp}/{node.op_type}#{i}"
            yield p, node
            for an, g in node_subgraphs(node):
                yield from iter_graph_nodes(g, f"{p}.{an}")


def iter_all_graphs(model: onnx.ModelProto) -> Iterator[tuple[str, onnx.GraphProto]]:
    def rec(g: onnx.GraphProto, path: str) -> Iterator[tuple[str, onnx.GraphProto]]:
        yield path, g
        for i, node in enumerate(g.node):
            for an, sg in node_subgraphs(node):
                yield from rec(sg, f"{path}/{node.op_type}#{i}.{an}")

    yield from rec(model.graph, "main")
    for f in model.functions:
        for i, node in enumerate(f.node):
            for an, sg in node_subgraphs(node):
                yield from rec(sg, f"fn:{f.domain}::{f.name}/{node.op_type}#{i}.{an}")


def iter_all_tensors(model: onnx.ModelProto) -> Iterator[tuple[str, TensorProto]]:
    """Every TensorProto: initializers (all graphs) and tensor-valued attributes."""
    for gp, g in iter_all_graphs(model):
        for t in g.initializer:
            yield f"{gp}:init:{t.name}", t
    for p, node in iter_all_nodes(model):
        for a in node.attribute:
            if a.type == AttributeProto.TENSOR:
                yield f"{p}@{a.name}", a.t
            elif a.type == AttributeProto.TENSORS:
                for i, t in enumerate(a.tensors):
                    yield f"{p}@{a.name}[{i}]", t


def iter_all_value_infos(model: onnx.ModelProto) -> Iterator[tuple[str, str, onnx.ValueInfoProto]]:
    for gp, g in iter_all_graphs(model):
        for vi in g.input:
            yield gp, "input", vi
        for vi in g.output:
            yield gp, "output", vi
        for vi in g.value_info:
            yield gp, "value_info", vi
    for f in model.functions:
        for vi in getattr(f, "value_info", []):
            yield f"fn:{f.domain}::{f.name}", "value_info", vi


# ----------------------------------------------------------------------------
# C03 structural rules
# ----------------------------------------------------------------------------


def structural_problems(model: onnx.ModelProto) -> list[dict[str, Any]]:
    """Scope / SSA / function-signature rules of property C03.

    * every value name is defined exactly once per graph scope
      (inputs, initializers, node outputs);
    * every use resolves, in topological order, to its own scope or an enclosing one;
    * a subgraph-local definition never shadows a name visible from outside;
    * every non-standard (domain, op_type) has exactly one FunctionProto with equal
      input/output arity and the model imports that domain;
    * function bodies reference only their inputs and own node outputs;
    * opset_import covers every domain used anywhere (model level and per function).
    """
    problems: list[dict[str, Any]] = []

    def add(rule: str, where: str, what: str) -> None:
        problems.append({"rule": rule, "where": where, "what": what})

    imports = {oi.domain if oi.domain != "ai.onnx" else "": oi.version for oi in model.opset_import}
    funcs: dict[tuple[str, str], list[onnx.FunctionProto]] = {}
    for f in model.functions:
        funcs.setdefault((f.domain, f.name), []).append(f)
    for (d, n), fl in funcs.items():
        if len(fl) > 1 and len({getattr(f, "overload", "") for f in fl}) != len(fl):
            add("function_defined_once", f"fn:{d}::{n}", f"{len(fl)} definitions")

    def check_node_call(path: str, node: onnx.NodeProto, local_imports: dict[str, int] | None) -> None:
        dom = "" if node.domain in STD_DOMAINS else node.domain
        if dom == "":
            if "" not in imports and (local_imports is None or "" not in local_imports):
                add("opset_import_missing", path, "default domain not imported")
            return
        if dom not in imports:
            add("opset_import_missing", path, f"domain {dom!r} not imported by the model")
        if local_imports is not None and dom not in local_imports:
            add("opset_import_missing", path, f"domain {dom!r} not imported by the enclosing function")
        fl = funcs.get((node.domain, node.op_type))
        if not fl:
            # a custom-domain op without a function body (e.g. com.microsoft contrib ops)
            if dom.startswith("com.microsoft") or dom.startswith("ai.onnx."):
                return
            add("function_missing", path, f"no FunctionProto for {node.domain}::{node.op_type}")
            return
        f = fl[0]
        if len(node.input) != len(f.input) or len(node.output) != len(f.output):
            add(
                "call_arity",
                path,
                f"call {len(node.input)}->{len(node.output)} vs definition {len(f.input)}->{len(f.output)}",
            )

    def walk_graph(g: onnx.GraphProto, path: str, outer: set[str], local_imports: dict[str, int] | None) -> None:
        defined: set[str] = set()

        def define(name: str, what: str) -> None:
            if not name:
                return
            if name in defined:
                add("defined_once", path, f"{what} {name!r} defined twice in this scope")
            elif name in outer:
                add("no_shadowing", path, f"{what} {name!r} shadows a name visible from the enclosing scope")
            defined.add(name)

        init_names = {t.name for t in g.initializer}
        for vi in g.input:
            if vi.name in init_names:
                continue  # input with default value: one definition
            define(vi.name, "input")
        for t in g.initializer:
            define(t.name, "initializer")
        for i, node in enumerate(g.node):
            np_ = f"{path}/{node.op_type}#{i}"
            for inp in node.input:
                if inp and inp not in defined and inp not in outer:
                    add("use_before_def", np_, f"input {inp!r} is not defined in this or an enclosing scope")
            check_node_call(np_, node, local_imports)
            for an, sg in node_subgraphs(node):
                walk_graph(sg, f"{np_}.{an}", outer | defined, local_imports)
            for out in node.output:
                define(out, "node output")
        for vi in g.output:
            if vi.name and vi.name not in defined and vi.name not in outer:
                add("output_undefined", path, f"graph output {vi.name!r} is not produced")

    walk_graph(model.graph, "main", set(), None)

    for f in model.functions:
        fp = f"fn:{f.domain}::{f.name}"
        local_imports = {oi.domain if oi.domain != "ai.onnx" else "": oi.version for oi in f.opset_import}
        defined: set[str] = set()
        for n in f.input:
            if n in defined:
                add("defined_once", fp, f"function input {n!r} repeated")
            defined.add(n)
        for i, node in enumerate(f.node):
            np_ = f"{fp}/{node.op_type}#{i}"
            for inp in node.input:
                if inp and inp not in defined:
                    add("function_closed", np_, f"input {inp!r} is neither a function input nor produced in the body")
            check_node_call(np_, node, local_imports)
            for an, sg in node_subgraphs(node):
                walk_graph(sg, f"{np_}.{an}", set(defined), local_imports)
                if len(sg.initializer):
                    pass  # subgraph initializers inside a function are still graph-local
            for out in node.output:
                if out:
                    if out in defined:
                        add("defined_once", np_, f"value {out!r} defined twice in function body")
                    defined.add(out)
        for o in f.output:
            if o not in defined:
                add("output_undefined", fp, f"function output {o!r} is not produced")
        if (f.domain if f.domain not in STD_DOMAINS else "") not in imports:
            add("opset_import_missing", fp, f"function domain {f.domain!r} not imported by the model")
    return problems


# ----------------------------------------------------------------------------
# type helpers
# ----------------------------------------------------------------------------


def vi_elem_type(vi: onnx.ValueInfoProto) -> int | None:
    t = vi.type
    if t.HasField("tensor_type"):
        return t.tensor_type.elem_type or None
    return None


def vi_shape(vi: onnx.ValueInfoProto) -> list[Any] | None:
    """None if no shape; else list of int / str (dim_param) / None (unknown)."""
    t = vi.type
    if not t.HasField("tensor_type") or not t.tensor_type.HasField("shape"):
        return None
    out: list[Any] = []
    for d in t.tensor_type.shape.dim:
        if d.HasField("dim_value"):
            out.append(int(d.dim_value))
        elif d.HasField("dim_param") and d.dim_param:
            out.append(str(d.dim_param))
        else:
            out.append(None)
    return out


def dtype_name(e: int | None) -> str:
    if e is None:
        return "UNDEFINED"
    try:
        return TensorProto.DataType.Name(e)
    except Exception:
        return str(e)
