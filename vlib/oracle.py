"""The numeric oracle (DESIGN 2.4).

Two executions are compared output by output: count, shape, dtype class, values.
Integers / booleans must be identical.  Floats: |a-b| <= tol_i with

    tol_i = K1*eps*|ref_i| + K2*(eps/delta)*D_i + K3*E_i + K4*eps*max|ref| + 4*eps

D_i = measured change of the JAX result under three relative input perturbations
of size delta (condition estimate), E_i = |jax32_i - jax64_i| where available.
D and E are only evaluated (lazily) when the plain tolerance fails.
"""

from __future__ import annotations

from dataclasses import dataclass, field
from typing import Any, Callable, Sequence

import numpy as np

K_DEFAULT = (256.0, 64.0, 64.0, 128.0)
DELTA = 2.0**-20
F32_EPS = float(np.finfo(np.float32).eps)


def dtype_class(dt: np.dtype) -> str:
    dt = np.dtype(dt)
    if dt == np.bool_:
        return "bool"
    if np.issubdtype(dt, np.integer):
        return "int"
    if np.issubdtype(dt, np.complexfloating):
        return "complex"
    if np.issubdtype(dt, np.floating) or dt.name in ("bfloat16", "float8_e4m3fn", "float8_e5m2"):
        return "float"
    return "other"


def _eps_of(dt: np.dtype) -> float:
    dt = np.dtype(dt)
    if dt.name == "bfloat16":
        return 2.0**-7
    if dt.name.startswith("float8"):
        return 2.0**-2
    try:
        return float(np.finfo(dt).eps)
    except Exception:
        return F32_EPS


def as_real_pair(a: np.ndarray) -> np.ndarray:
    a = np.asarray(a)
    if np.iscomplexobj(a):
        return np.stack([a.real, a.imag], axis=-1)
    return a


@dataclass
class Lazy:
    """Supplies condition / precision estimates on demand."""

    perturbed: Callable[[], list[list[np.ndarray]]] | None = None
    ref64: Callable[[], list[np.ndarray] | None] | None = None
    _p: Any = field(default=None, repr=False)
    _r: Any = field(default=None, repr=False)
    _pd: bool = False
    _rd: bool = False
    discrete_ref64: bool = False  # generated compositions: a discrete result the float64 evaluation decides differently is noise

    def get_perturbed(self) -> list[list[np.ndarray]]:
        if not self._pd:
            self._pd = True
            try:
                self._p = self.perturbed() if self.perturbed else []
            except Exception:
                self._p = []
        return self._p or []

    def get_ref64(self) -> list[np.ndarray] | None:
        if not self._rd:
            self._rd = True
            try:
                self._r = self.ref64() if self.ref64 else None
            except Exception:
                self._r = None
        return self._r


@dataclass
class Cmp:
    ok: bool
    kind: str | None = None  # count | shape | dtype | value | nonfinite
    text: str = ""
    n_compared: int = 0
    masked_nonfinite: int = 0
    unstable_only: bool = False  # every mismatching element sits on a discontinuity
    max_ratio: float = 0.0
    out_index: int | None = None
    detail: dict[str, Any] = field(default_factory=dict)


def compare(
    ref: Sequence[np.ndarray],
    got: Sequence[np.ndarray],
    *,
    lazy: Lazy | None = None,
    eps_floor: float | None = F32_EPS,
    K: tuple[float, float, float, float] = K_DEFAULT,
    exact: bool = False,
    int_widening_ok: bool = True,
    abs_floor_mult: float = 4.0,
) -> Cmp:
    """eps_floor: the comparison never uses an eps finer than this (float64 outputs
    are judged at single-precision level unless a finer eps_floor is passed).
    exact=True: floats must match bit for bit (up to NaN-ness and signed zero)."""
    lazy = lazy or Lazy()
    if len(ref) != len(got):
        return Cmp(False, "count", f"output count {len(got)} vs reference {len(ref)}")
    n_compared = 0
    masked = 0
    worst = Cmp(True)
    for idx, (r0, g0) in enumerate(zip(ref, got)):
        r = as_real_pair(np.asarray(r0))
        g = np.asarray(g0)
        if np.iscomplexobj(g):
            g = as_real_pair(g)
        if r.shape != g.shape:
            return Cmp(False, "shape", f"output {idx}: shape {tuple(g.shape)} vs reference {tuple(r.shape)}", out_index=idx)
        rc, gc = dtype_class(r.dtype), dtype_class(g.dtype)
        if rc != gc:
            return Cmp(False, "dtype", f"output {idx}: dtype class {g.dtype} vs reference {r.dtype}", out_index=idx)
        if rc in ("bool", "int"):
            if not int_widening_ok and r.dtype != g.dtype:
                return Cmp(False, "dtype", f"output {idx}: dtype {g.dtype} vs reference {r.dtype}", out_index=idx)
            if r.dtype != g.dtype and rc == "int":
                if r.dtype == np.uint64 or g.dtype == np.uint64:
                    ra, ga = r.astype(object), g.astype(object)
                    neq = np.array(ra != ga, dtype=bool)
                else:
                    neq = r.astype(np.int64) != g.astype(np.int64)
            else:
                neq = r != g
            n_compared += int(r.size)
            if np.any(neq):
                unstable = np.zeros(r.shape, dtype=bool)
                for pert in lazy.get_perturbed():
                    if idx < len(pert) and np.asarray(pert[idx]).shape == r.shape:
                        unstable |= np.asarray(pert[idx]) != r
                # a discrete result that the float64 evaluation of the same function decides differently
                # hinges on rounding noise of the intermediates, not on the inputs
                r64 = lazy.get_ref64() if lazy.discrete_ref64 else None
                if r64 is not None and idx < len(r64) and np.asarray(r64[idx]).shape == r.shape:
                    try:
                        unstable |= np.asarray(r64[idx]).astype(r.dtype) != r
                    except Exception:  # noqa: BLE001
                        pass
                bad = neq & ~unstable
                i0 = tuple(int(v[0]) for v in np.nonzero(neq))
                c = Cmp(
                    False,
                    "value",
                    f"output {idx}: {int(neq.sum())}/{r.size} integer/bool elements differ, e.g. at {i0}: got {g[i0]!r} ref {r[i0]!r}",
                    unstable_only=not bool(np.any(bad)),
                    max_ratio=float("inf"),
                    out_index=idx,
                )
                if not c.unstable_only:
                    c.n_compared = n_compared
                    return c
                if worst.ok:
                    worst = c
            continue
        if rc == "other":
            continue
        # ---- floats --------------------------------------------------------
        eps = max(_eps_of(r.dtype), _eps_of(g.dtype))
        if eps_floor is not None:
            eps = max(eps, eps_floor)
        r64 = r.astype(np.float64)
        g64 = g.astype(np.float64)
        fin = np.isfinite(r64)
        # results within 2**-4 of the format's overflow threshold count as out of
        # domain: whether an intermediate overflows there is a property of the
        # runtime's kernels (ORT Cosh(89) = inf), not of the exported graph
        try:
            fin &= np.abs(r64) <= float(np.finfo(r.dtype).max) / 16.0
        except Exception:
            pass
        masked += int((~fin).sum())
        if not np.any(fin):
            continue
        n_compared += int(fin.sum())
        gbad = fin & ~np.isfinite(g64)
        diff = np.where(fin & ~gbad, np.abs(r64 - g64), 0.0)
        if exact:
            neq = fin & ~gbad & (r64 != g64)
            if np.any(neq) or np.any(gbad):
                m = neq | gbad
                i0 = tuple(int(v[0]) for v in np.nonzero(m))
                return Cmp(False, "value", f"output {idx}: not bit-identical at {i0}: got {g64[i0]!r} ref {r64[i0]!r}", n_compared=n_compared, out_index=idx, max_ratio=float("inf"))
            continue
        scale = float(np.max(np.abs(r64[fin])))
        tol = K[0] * eps * np.abs(np.where(fin, r64, 0.0)) + K[3] * eps * scale + abs_floor_mult * eps
        fail = (diff > tol) | gbad
        if not np.any(fail):
            continue
        # lazily widen the tolerance by the measured condition and JAX's own f32 error
        D = np.zeros(r.shape)
        for pert in lazy.get_perturbed():
            if idx < len(pert):
                p = as_real_pair(np.asarray(pert[idx])).astype(np.float64)
                if p.shape == r.shape:
                    d = np.abs(p - r64)
                    d = np.where(np.isfinite(d), d, np.inf)
                    D = np.maximum(D, d)
        E = np.zeros(r.shape)
        r64ref = lazy.get_ref64()
        if r64ref is not None and idx < len(r64ref):
            q = as_real_pair(np.asarray(r64ref[idx])).astype(np.float64)
            if q.shape == r.shape:
                e = np.abs(q - r64)
                E = np.where(np.isfinite(e), e, 0.0)
        tol2 = tol + K[1] * (eps / DELTA) * D + K[2] * E
        fail2 = ((diff > tol2) & ~gbad) | (gbad & np.isfinite(tol2))
        if not np.any(fail2):
            continue
        unstable = D > 0.01 * np.maximum(np.abs(np.where(fin, r64, 0.0)), 1e-30)
        bad = fail2 & ~unstable
        with np.errstate(divide="ignore", invalid="ignore"):
            ratio = np.where(fail2, np.where(gbad, np.inf, diff / np.maximum(tol2, 1e-300)), 0.0)
        i0 = np.unravel_index(int(np.argmax(ratio)), ratio.shape) if ratio.size else ()
        i0 = tuple(int(v) for v in i0)
        c = Cmp(
            False,
            "nonfinite" if np.any(gbad & fail2) else "value",
            f"output {idx}: {int(fail2.sum())}/{r.size} float elements beyond tolerance; worst at {i0}: got {g64[i0]!r} ref {r64[i0]!r} tol {float(tol2[i0]):.3g} (ratio {float(ratio[i0]):.3g})",
            unstable_only=not bool(np.any(bad)),
            max_ratio=float(np.max(ratio)),
            out_index=idx,
            detail={"got": float(g64[i0]), "ref": float(r64[i0]), "tol": float(tol2[i0]), "n_fail": int(fail2.sum())},
        )
        if not c.unstable_only:
            c.n_compared = n_compared
            c.masked_nonfinite = masked
            return c
        if worst.ok:
            worst = c
    worst.n_compared = n_compared
    worst.masked_nonfinite = masked
    return worst


def make_lazy(
    fn_factory: Callable[[], Any],
    xs: Sequence[np.ndarray],
    params: dict[str, Any] | None,
    dp: bool,
    rng: np.random.Generator,
    evaluator: Callable[..., list[np.ndarray]],
) -> Lazy:
    """fn_factory() returns a fresh, never-exported twin callable."""
    from vlib import inputs as vin

    def _pert() -> list[list[np.ndarray]]:
        fn = fn_factory()
        out = []
        for _ in range(3):
            try:
                out.append(evaluator(fn, vin.perturb(xs, rng), params, dp))
            except Exception:
                pass
        return out

    def _r64() -> list[np.ndarray] | None:
        if dp:
            return None
        fn = fn_factory()
        xs64 = [
            np.asarray(x).astype(np.float64)
            if np.issubdtype(np.asarray(x).dtype, np.floating)
            else (np.asarray(x).astype(np.complex128) if np.iscomplexobj(x) else np.asarray(x))
            for x in xs
        ]
        return evaluator(fn, xs64, params, True)

    return Lazy(perturbed=_pert, ref64=_r64)
