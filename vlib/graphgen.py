"""Pattern-neighbourhood ONNX graphs for the optimizer monitors (C02, C17).

A recipe is a JSON-able dict; build(recipe) -> (ModelProto with inferred value_info,
input signature with symbols, bindings to try).  Graphs are built with onnx.helper
only; the real optimize_graph is applied to them through onnx_ir.
"""

from __future__ import annotations

import itertools
from typing import Any

import numpy as np
import onnx
from onnx import TensorProto, helper, numpy_helper

F = TensorProto.FLOAT

PERMS3 = [list(p) for p in itertools.permutations(range(3))]
PERMS4 = [[0, 3, 1, 2], [0, 2, 3, 1], [0, 1, 3, 2], [0, 2, 1, 3], [1, 0, 2, 3], [3, 2, 1, 0]]
UNARY = ["Relu", "Sigmoid", "Tanh", "Elu", "LeakyRelu", "Identity", "Neg", "Abs", "Exp", "CastF", "Gelu"]
BINARY = ["Add", "Mul", "Sub", "Div", "Max", "Min", "CastLike"]
NON_MEMBERS = ["SoftmaxAxis1", "ReduceSumKeep", "CumSum0"]
SIDE_KINDS = ["scalar", "vector_last", "full_const", "second_input", "ones_shape"]


def inverse(perm: list[int]) -> list[int]:
    inv = [0] * len(perm)
    for i, p in enumerate(perm):
        inv[p] = i
    return inv


class B:
    """Tiny graph builder."""

    def __init__(self, opset: int = 21) -> None:
        self.nodes: list[onnx.NodeProto] = []
        self.inits: list[onnx.TensorProto] = []
        self.inputs: list[onnx.ValueInfoProto] = []
        self.outputs: list[str] = []
        self.in_sig: list[tuple[list[Any], Any]] = []
        self.n = 0
        self.opset = opset
        self.functions: list[onnx.FunctionProto] = []

    def name(self, p: str = "v") -> str:
        self.n += 1
        return f"{p}{self.n}"

    def inp(self, shape: list[Any], dt=np.float32, name: str | None = None) -> str:
        nm = name or f"x{len(self.inputs)}"
        self.inputs.append(helper.make_tensor_value_info(nm, helper.np_dtype_to_tensor_dtype(np.dtype(dt)), shape))
        self.in_sig.append((list(shape), np.dtype(dt)))
        return nm

    def const(self, arr: np.ndarray, p: str = "c") -> str:
        nm = self.name(p)
        self.inits.append(numpy_helper.from_array(np.asarray(arr), nm))
        return nm

    def node(self, op: str, ins: list[str], n_out: int = 1, domain: str = "", **attrs: Any) -> Any:
        outs = [self.name(op.lower()[:4] + "_") for _ in range(n_out)]
        self.nodes.append(helper.make_node(op, ins, outs, domain=domain, **attrs))
        return outs[0] if n_out == 1 else outs

    def model(self, extra_imports: list[tuple[str, int]] | None = None, data_prop: bool = True) -> onnx.ModelProto:
        g = helper.make_graph(self.nodes, "g", self.inputs, [helper.make_empty_tensor_value_info(o) for o in self.outputs], initializer=self.inits)
        imports = [helper.make_opsetid("", self.opset)] + [helper.make_opsetid(d, v) for d, v in (extra_imports or [])]
        m = helper.make_model(g, opset_imports=imports, functions=self.functions, ir_version=10)
        m = onnx.shape_inference.infer_shapes(m, data_prop=data_prop)
        # graph outputs need types: copy from inferred value_info
        vi = {v.name: v for v in m.graph.value_info}
        for i, o in enumerate(list(m.graph.output)):
            if o.name in vi:
                m.graph.output[i].CopyFrom(vi[o.name])
            else:
                for gi in m.graph.input:
                    if gi.name == o.name:
                        m.graph.output[i].CopyFrom(gi)
        return m


def _capture_in_if(b: B, name: str) -> str:
    """An If node (constant-true predicate made opaque through a graph input) whose
    branches read `name` from the enclosing scope."""
    if not any(i.name == "pred" for i in b.inputs):
        b.inp([], np.bool_, name="pred")
    then_g = helper.make_graph([helper.make_node("Neg", [name], ["cap_then_out"])], "cap_then", [], [helper.make_empty_tensor_value_info("cap_then_out")])
    else_g = helper.make_graph([helper.make_node("Abs", [name], ["cap_else_out"])], "cap_else", [], [helper.make_empty_tensor_value_info("cap_else_out")])
    return b.node("If", ["pred"], then_branch=then_g, else_branch=else_g)


def _apply_unary(b: B, op: str, x: str, rng) -> str:
    if op == "CastF":
        return b.node("Cast", [x], to=F)
    if op == "LeakyRelu":
        return b.node("LeakyRelu", [x], alpha=0.1)
    if op == "Elu":
        return b.node("Elu", [x], alpha=1.0)
    if op == "SoftmaxAxis1":
        return b.node("Softmax", [x], axis=1)
    if op == "ReduceSumKeep":
        return b.node("ReduceSum", [x, b.const(np.array([1], np.int64))], keepdims=1)
    if op == "CumSum0":
        return b.node("CumSum", [x, b.const(np.array(1, np.int64))])
    if op == "Gelu" and b.opset < 20:
        return b.node("Tanh", [x])
    return b.node(op, [x])


def _side_operand(b: B, kind: str, shape_now: list[Any], rng, second: str | None) -> str | None:
    """A second operand for a binary op applied to a tensor of (current, transposed) shape."""
    conc = [d if isinstance(d, int) else 3 for d in shape_now]
    if kind == "scalar":
        return b.const(np.float32(rng.uniform(0.5, 1.5)).reshape(()))
    if kind == "vector_last":
        return b.const(rng.uniform(0.5, 1.5, (conc[-1],)).astype(np.float32))
    if kind == "ones_shape":
        return b.const(rng.uniform(0.5, 1.5, [1] * len(conc)).astype(np.float32))
    if kind == "full_const":
        if any(not isinstance(d, int) for d in shape_now):
            return b.const(rng.uniform(0.5, 1.5, [1] + conc[1:]).astype(np.float32))
        return b.const(rng.uniform(0.5, 1.5, conc).astype(np.float32))
    if kind == "second_input":
        return second
    raise ValueError(kind)


def _perm_shape(shape: list[Any], perm: list[int]) -> list[Any]:
    return [shape[p] for p in perm]


# ----------------------------------------------------------------------------
# templates
# ----------------------------------------------------------------------------


def t_transpose_chain(r: dict[str, Any]) -> onnx.ModelProto:
    rng = np.random.default_rng(r["seed"])
    b = B(r["opset"])
    shape = list(r["shape"])
    perm1, perm2 = r["perm1"], r["perm2"]
    x = b.inp(shape)
    tshape = _perm_shape(shape, perm1)
    second = None
    if any(st.get("side") == "second_input" for st in r["chain"]):
        second = b.inp(tshape)
    cur = b.node("Transpose", [x], perm=perm1)
    mids = [cur]
    for st in r["chain"]:
        if st["op"] in BINARY:
            side = _side_operand(b, st["side"], tshape, rng, second)
            ins = [cur, side] if st.get("data_first", True) else [side, cur]
            cur = b.node(st["op"], ins)
        elif st["op"] == "Clip":
            cur = b.node("Clip", [cur, b.const(np.float32(-0.5).reshape(())), b.const(np.float32(0.5).reshape(()))])
        else:
            cur = _apply_unary(b, st["op"], cur, rng)
        mids.append(cur)
    out = b.node("Transpose", [cur], perm=perm2)
    b.outputs.append(out)
    for i in r.get("extra_outputs", []):
        if i < len(mids) and mids[i] not in b.outputs:
            b.outputs.append(mids[i])
    for i in r.get("extra_consumers", []):
        if i < len(mids):
            b.outputs.append(b.node("Neg", [mids[i]]))
    for i in r.get("extra_captures", []):
        if i < len(mids):
            b.outputs.append(_capture_in_if(b, mids[i]))
    return b.model()


def t_transpose_reduce(r: dict[str, Any]) -> onnx.ModelProto:
    b = B(r["opset"])
    shape = list(r["shape"])
    x = b.inp(shape)
    t1 = b.node("Transpose", [x], perm=r["perm1"])
    pre = t1
    if r.get("pre_unary"):
        pre = b.node("Relu", [t1])
    if r["axes_as_input"]:
        red = b.node(r["reduce_op"], [pre, b.const(np.array(r["axes"], np.int64))], keepdims=r["keepdims"])
    else:
        red = b.node(r["reduce_op"], [pre], keepdims=r["keepdims"]) if r["axes"] is None else b.node(r["reduce_op"], [pre], axes=r["axes"], keepdims=r["keepdims"])
    mids = [t1, red]
    out = b.node("Transpose", [red], perm=r["perm2"]) if r["keepdims"] == 1 or len(r["perm2"]) == len(shape) - len(r["axes"] or shape) else red
    b.outputs.append(out)
    for i in r.get("extra_outputs", []):
        if mids[i] not in b.outputs:
            b.outputs.append(mids[i])
    for i in r.get("extra_consumers", []):
        b.outputs.append(b.node("Neg", [mids[i]]))
    for i in r.get("extra_captures", []):
        b.outputs.append(_capture_in_if(b, mids[i]))
    return b.model()


def t_add_forest(r: dict[str, Any]) -> onnx.ModelProto:
    rng = np.random.default_rng(r["seed"])
    b = B(r["opset"])
    shape = list(r["shape"])
    perm1, perm2 = r["perm1"], r["perm2"]
    k = r["n_inputs"]
    xs = [b.inp(shape) for _ in range(k)]
    ts = [b.node("Transpose", [x], perm=perm1 if not (r.get("odd_perm_at") == i) else r["odd_perm"]) for i, x in enumerate(xs)]
    mids = list(ts)
    cur = ts[0]
    for i in range(1, k):
        cur = b.node(r.get("op", "Add"), [cur, ts[i]])
        mids.append(cur)
    if r.get("scale_const"):
        cur = b.node("Mul", [cur, _side_operand(b, r["scale_const"], _perm_shape(shape, perm1), rng, None)])
        mids.append(cur)
    out = b.node("Transpose", [cur], perm=perm2)
    b.outputs.append(out)
    if r.get("second_inverse"):
        b.outputs.append(b.node("Transpose", [mids[-1]], perm=perm2))
    if r.get("second_exit_perm"):
        src = mids[-1] if r.get("second_exit_from_last", True) else mids[len(ts)]
        b.outputs.append(b.node("Transpose", [src], perm=r["second_exit_perm"]))
    for i in r.get("extra_outputs", []):
        if i < len(mids) and mids[i] not in b.outputs:
            b.outputs.append(mids[i])
    for i in r.get("extra_consumers", []):
        if i < len(mids):
            b.outputs.append(b.node("Neg", [mids[i]]))
    for i in r.get("extra_captures", []):
        if i < len(mids):
            b.outputs.append(_capture_in_if(b, mids[i]))
    return b.model()


def t_reshape_pair(r: dict[str, Any]) -> onnx.ModelProto:
    rng = np.random.default_rng(r["seed"])
    b = B(r["opset"])
    shape = list(r["shape"])
    x = b.inp(shape)
    r1 = b.node("Reshape", [x, b.const(np.array(r["mid_shape"], np.int64))])
    mids = [r1]
    cur = r1
    mid_conc = r["mid_conc"]
    second = None
    if any(st.get("side") == "second_input" for st in r["chain"]):
        second = b.inp(mid_conc)
    for st in r["chain"]:
        if st["op"] in BINARY:
            side = _side_operand(b, st["side"], mid_conc, rng, second)
            cur = b.node(st["op"], [cur, side] if st.get("data_first", True) else [side, cur])
        elif st["op"] == "Clip":
            cur = b.node("Clip", [cur, b.const(np.float32(-0.5).reshape(())), b.const(np.float32(0.5).reshape(()))])
        else:
            cur = _apply_unary(b, st["op"], cur, rng)
        mids.append(cur)
    out = b.node("Reshape", [cur, b.const(np.array(r["final_shape"], np.int64))])
    b.outputs.append(out)
    for i in r.get("extra_outputs", []):
        if i < len(mids) and mids[i] not in b.outputs:
            b.outputs.append(mids[i])
    for i in r.get("extra_consumers", []):
        if i < len(mids):
            b.outputs.append(b.node("Neg", [mids[i]]))
    for i in r.get("extra_captures", []):
        if i < len(mids):
            b.outputs.append(_capture_in_if(b, mids[i]))
    return b.model()


def t_reshape_two_inputs(r: dict[str, Any]) -> onnx.ModelProto:
    """(B,4) -> reshape (4,-1) ... and an (4,N) input: symbols compared as wildcards."""
    b = B(r["opset"])
    x = b.inp(r["shape_a"])
    y = b.inp(r["shape_b"])
    r1 = b.node("Reshape", [x, b.const(np.array(r["mid_shape"], np.int64))])
    t = b.node("Tanh", [r1])
    out = b.node("Reshape", [t, b.node("Shape", [y])])
    b.outputs.append(out)
    b.outputs.append(b.node("Identity", [y]))
    return b.model()


def t_identity_reshape(r: dict[str, Any]) -> onnx.ModelProto:
    b = B(r["opset"])
    x = b.inp(list(r["shape"]))
    pre = b.node("Relu", [x]) if r.get("pre") else x
    kw = {"allowzero": r["allowzero"]} if r.get("allowzero") is not None else {}
    rs = b.node("Reshape", [pre, b.const(np.array(r["target"], np.int64))], **kw)
    out = b.node("Neg", [rs])
    b.outputs.append(out)
    if r.get("reshape_is_output"):
        b.outputs.append(rs)
    return b.model()


_DT = {
    "f32": TensorProto.FLOAT, "f64": TensorProto.DOUBLE, "f16": TensorProto.FLOAT16, "bf16": TensorProto.BFLOAT16,
    "i8": TensorProto.INT8, "i16": TensorProto.INT16, "i32": TensorProto.INT32, "i64": TensorProto.INT64,
    "u8": TensorProto.UINT8, "u16": TensorProto.UINT16, "u32": TensorProto.UINT32, "u64": TensorProto.UINT64, "bool": TensorProto.BOOL,
}
_NP = {
    "f32": np.float32, "f64": np.float64, "f16": np.float16, "i8": np.int8, "i16": np.int16, "i32": np.int32, "i64": np.int64,
    "u8": np.uint8, "u16": np.uint16, "u32": np.uint32, "u64": np.uint64, "bool": np.bool_,
}


def t_cast_pair(r: dict[str, Any]) -> onnx.ModelProto:
    b = B(r["opset"])
    x = b.inp([r.get("n", 8)], _NP[r["T"]])
    pre = b.node("Identity", [x]) if r.get("pre_identity") else x
    c1 = b.node("Cast", [pre], to=_DT[r["U"]])
    mids = [c1]
    c2 = b.node("Cast", [c1], to=_DT[r["T2"] if r.get("T2") else r["T"]])
    b.outputs.append(c2)
    variant = r.get("variant", "plain")
    if variant == "mid_is_output":
        b.outputs.append(c1)
    elif variant == "two_consumers":
        b.outputs.append(b.node("Identity", [c1]))
    elif variant == "mid_captured_by_if":
        cond = b.const(np.array(True))
        then_g = helper.make_graph([helper.make_node("Identity", [c1], ["then_out"])], "then", [], [helper.make_empty_tensor_value_info("then_out")])
        else_g = helper.make_graph([helper.make_node("Identity", [c1], ["else_out"])], "else", [], [helper.make_empty_tensor_value_info("else_out")])
        b.outputs.append(b.node("If", [cond], then_branch=then_g, else_branch=else_g))
    return b.model()


def t_mul_sigmoid(r: dict[str, Any]) -> onnx.ModelProto:
    b = B(r["opset"])
    x = b.inp(list(r["shape"]))
    pre = b.node("Tanh", [x]) if r.get("pre") else x
    other = pre if r.get("same", True) else b.node("Neg", [pre])
    s = b.node("Sigmoid", [other])
    out = b.node("Mul", [pre, s] if r.get("order", 0) == 0 else [s, pre])
    b.outputs.append(out)
    if r.get("sigmoid_is_output"):
        b.outputs.append(s)
    if r.get("sigmoid_second_consumer"):
        b.outputs.append(b.node("Neg", [s]))
    if r.get("sigmoid_captured_by_if"):  # the only other reader of the Sigmoid lives in a nested graph
        b.outputs.append(_capture_in_if(b, s))
    return b.model()


def t_mul_rsqrt(r: dict[str, Any]) -> onnx.ModelProto:
    b = B(r["opset"])
    x = b.inp(list(r["shape"]))
    y = b.inp(list(r["shape"]))
    pos = b.node("Add", [b.node("Abs", [y]), b.const(np.float32(0.5).reshape(()))])
    sq = b.node("Sqrt", [pos])
    rec = b.node("Reciprocal", [sq]) if r.get("form", "reciprocal") == "reciprocal" else b.node("Div", [b.const(np.float32(1.0).reshape(())), sq])
    out = b.node("Mul", [x, rec] if r.get("order", 0) == 0 else [rec, x])
    b.outputs.append(out)
    if r.get("rsqrt_is_output"):
        b.outputs.append(rec)
    if r.get("rsqrt_second_consumer"):
        b.outputs.append(b.node("Neg", [rec]))
    if r.get("rsqrt_captured_by_if"):
        b.outputs.append(_capture_in_if(b, rec))
    elif r.get("sqrt_captured_by_if"):
        b.outputs.append(_capture_in_if(b, sq))
    return b.model()


def t_dropout_not(r: dict[str, Any]) -> onnx.ModelProto:
    b = B(r["opset"])
    x = b.inp(list(r["shape"]))
    det = b.const(np.array(r["deterministic"]))
    tm = b.node("Not", [det]) if r.get("via_not", True) else b.const(np.array(not r["deterministic"]))
    ratio = b.const(np.float32(r.get("ratio", 0.5)).reshape(()))
    outs = b.node("Dropout", [b.node("Relu", [x]), ratio, tm], n_out=2 if r.get("mask_out") else 1)
    if isinstance(outs, list):
        b.outputs.extend([b.node("Neg", [outs[0]]), outs[1]])
    else:
        b.outputs.append(b.node("Neg", [outs]))
    if r.get("not_is_output") and r.get("via_not", True):
        b.outputs.append(tm)
    return b.model()


_RANGE_MIX_OPS = ("ConcatInput", "ConcatInputFirst", "ConcatConstBig", "AddInput", "SubInput", "MulInput", "MaxInput", "MinInput", "WhereInput", "GatherFromInput", "PadBig", "NegMulBig", "Tile", "Slice")


def t_range_cast(r: dict[str, Any]) -> onnx.ModelProto:
    b = B(r["opset"])
    dt = _NP[r["T"]]
    rg = b.node("Range", [b.const(np.array(r["start"], dt)), b.const(np.array(r["limit"], dt)), b.const(np.array(r["delta"], dt))])
    mid = rg
    for op in r.get("shape_ops", []):
        if op == "Unsqueeze":
            mid = b.node("Unsqueeze", [mid, b.const(np.array([0], np.int64))])
        elif op == "Identity":
            mid = b.node("Identity", [mid])
        elif op == "Reshape":
            mid = b.node("Reshape", [mid, b.const(np.array([-1, 1], np.int64))])
        elif op == "AddOne":  # not a shape-only op: must invalidate the range proof
            mid = b.node("Add", [mid, b.const(np.array(r.get("add", 1), dt))])
        elif op in _RANGE_MIX_OPS:
            # value-mixing ops: the other operand is an unbounded graph input (or a large constant)
            n = int(r.get("n_emit", 5))
            y = "y" if any(v.name == "y" for v in b.inputs) else b.inp([n], dt, name="y")
            big = b.const(np.array([r.get("big", 2**40 + 7)] * n, dt))
            if op == "ConcatInput":
                mid = b.node("Concat", [mid, y], axis=0)
            elif op == "ConcatInputFirst":
                mid = b.node("Concat", [y, mid], axis=0)
            elif op == "ConcatConstBig":
                mid = b.node("Concat", [mid, big], axis=0)
            elif op == "AddInput":
                mid = b.node("Add", [mid, y])
            elif op == "SubInput":
                mid = b.node("Sub", [y, mid])
            elif op == "MulInput":
                mid = b.node("Mul", [mid, y])
            elif op == "MaxInput":
                mid = b.node("Max", [mid, y])
            elif op == "MinInput":
                mid = b.node("Min", [y, mid])
            elif op == "WhereInput":
                mid = b.node("Where", [b.node("Less", [mid, b.const(np.array(2, dt))]), mid, y])
            elif op == "GatherFromInput":
                mid = b.node("Gather", [y, b.node("Mod", [b.node("Abs", [mid]), b.const(np.array(n, dt))])], axis=0)
            elif op == "PadBig":
                mid = b.node("Pad", [mid, b.const(np.array([1, 1], np.int64)), b.const(np.array(r.get("big", 2**40 + 7), dt))])
            elif op == "SumWithInput":
                mid = b.node("Sum", [mid, y, y])
            elif op == "NegMulBig":
                mid = b.node("Mul", [b.node("Neg", [mid]), big])
            elif op == "Tile":  # value preserving
                mid = b.node("Tile", [mid, b.const(np.array([2], np.int64))])
            elif op == "Slice":  # value preserving
                mid = b.node("Slice", [mid, b.const(np.array([1], np.int64)), b.const(np.array([4], np.int64))])
    c1 = b.node("Cast", [mid], to=_DT[r["U"]])
    c2 = b.node("Cast", [c1], to=_DT[r["T"]])
    x = b.inp([1], dt)
    b.outputs.append(b.node("Add", [c2, x]))
    return b.model(data_prop=False)


def t_dead_and_prune(r: dict[str, Any]) -> onnx.ModelProto:
    """Unused inputs / dead nodes / orphan transposes: the interface must survive."""
    b = B(r["opset"])
    names = [b.inp([2, 3], name=nm) for nm in r["input_names"]]
    used = names[r["used"]]
    out = b.node("Relu", [used])
    b.node("Exp", [names[(r["used"] + 1) % len(names)]])  # dead
    b.node("Transpose", [used], perm=[1, 0])  # orphan
    b.outputs.append(out)
    if r.get("input_is_output") is not None:
        b.outputs.append(names[r["input_is_output"]])
    return b.model()


def t_in_if(r: dict[str, Any]) -> onnx.ModelProto:
    """A transpose-chain pattern inside an If branch capturing an outer value."""
    b = B(r["opset"])
    shape = list(r["shape"])
    x = b.inp(shape)
    p = b.inp([], np.bool_)
    perm1 = r["perm1"]
    perm2 = r["perm2"]
    outer = b.node("Relu", [x])
    nodes = [helper.make_node("Transpose", [outer], ["t1"], perm=perm1)]
    cur = "t1"
    for i, op in enumerate(r["chain"]):
        if op == "MaxTensor":
            cname = f"c_if_{i}"
            conc = _perm_shape(shape, perm1)
            nodes.append(helper.make_node("Constant", [], [cname], value=numpy_helper.from_array(np.linspace(-1, 1, int(np.prod(conc))).astype(np.float32).reshape(conc), cname)))
            nodes.append(helper.make_node("Max", [cur, cname], [f"m{i}"]))
        else:
            nodes.append(helper.make_node(op, [cur], [f"m{i}"]))
        cur = f"m{i}"
    nodes.append(helper.make_node("Transpose", [cur], ["then_out"], perm=perm2))
    then_g = helper.make_graph(nodes, "then", [], [helper.make_empty_tensor_value_info("then_out")])
    else_g = helper.make_graph([helper.make_node("Neg", [outer], ["else_out"])], "else", [], [helper.make_empty_tensor_value_info("else_out")])
    b.outputs.append(b.node("If", [p], then_branch=then_g, else_branch=else_g))
    if r.get("outer_also_transposed"):
        t = b.node("Transpose", [outer], perm=perm1)
        b.outputs.append(b.node("Transpose", [b.node("Tanh", [t])], perm=inverse(perm1)))
    return b.model()


def t_in_function(r: dict[str, Any]) -> onnx.ModelProto:
    b = B(r["opset"])
    shape = list(r["shape"])
    x = b.inp(shape)
    perm1, perm2 = r["perm1"], r["perm2"]
    fnodes = [helper.make_node("Transpose", ["a"], ["t1"], perm=perm1)]
    cur = "t1"
    for i, op in enumerate(r["chain"]):
        fnodes.append(helper.make_node(op, [cur], [f"m{i}"]))
        cur = f"m{i}"
    fnodes.append(helper.make_node("Transpose", [cur], ["r"], perm=perm2))
    outs = ["r"]
    if r.get("unused_fn_input"):
        fins = ["a", "unused"]
    else:
        fins = ["a"]
    f = helper.make_function("custom.verif", "F", fins, outs, fnodes, opset_imports=[helper.make_opsetid("", r["opset"])])
    b.functions.append(f)
    args = [x] + ([b.node("Neg", [x])] if r.get("unused_fn_input") else [])
    y = b.node("F", args, domain="custom.verif")
    b.outputs.append(b.node("Relu", [y]))
    return b.model([("custom.verif", 1)])


TEMPLATES = {
    "transpose_chain": t_transpose_chain,
    "transpose_reduce": t_transpose_reduce,
    "add_forest": t_add_forest,
    "reshape_pair": t_reshape_pair,
    "reshape_two_inputs": t_reshape_two_inputs,
    "identity_reshape": t_identity_reshape,
    "cast_pair": t_cast_pair,
    "mul_sigmoid": t_mul_sigmoid,
    "mul_rsqrt": t_mul_rsqrt,
    "dropout_not": t_dropout_not,
    "range_cast": t_range_cast,
    "dead_and_prune": t_dead_and_prune,
    "in_if": t_in_if,
    "in_function": t_in_function,
}


def _name_nodes(graph: onnx.GraphProto, counter: list[int]) -> None:
    """The converter names every node (node_<Op>_<n>); optimizer passes derive value names from them."""
    for n in graph.node:
        n.name = f"node_{n.op_type}_{counter[0]}"
        counter[0] += 1
        for a in n.attribute:
            if a.type == onnx.AttributeProto.GRAPH:
                _name_nodes(a.g, counter)
            elif a.type == onnx.AttributeProto.GRAPHS:
                for g in a.graphs:
                    _name_nodes(g, counter)


def t_pair(r: dict[str, Any]) -> onnx.ModelProto:
    """Two independently drawn pattern instances in ONE graph (a rewrite that fires twice must not
    let the second application disturb the first: shared names, shared new initializers, stale node lists)."""
    from onnx import compose

    ma, mb = build(r["a"]), build(r["b"])
    mb = compose.add_prefix(mb, "p2_", rename_functions=True) if "rename_functions" in compose.add_prefix.__code__.co_varnames else compose.add_prefix(mb, "p2_")
    m = onnx.ModelProto()
    m.CopyFrom(ma)
    g, gb = m.graph, mb.graph
    if r.get("interleave"):
        na, nb = list(ma.graph.node), list(gb.node)
        del g.node[:]
        while na or nb:
            if na:
                g.node.append(na.pop(0))
            if nb:
                g.node.append(nb.pop(0))
    else:
        g.node.extend(gb.node)
    g.input.extend(gb.input)
    g.output.extend(gb.output)
    g.initializer.extend(gb.initializer)
    g.value_info.extend(gb.value_info)
    have = {(f.domain, f.name) for f in m.functions}
    for f in mb.functions:
        if (f.domain, f.name) not in have:
            m.functions.append(f)
    doms = {o.domain for o in m.opset_import}
    for o in mb.opset_import:
        if o.domain not in doms:
            m.opset_import.append(o)
    _name_nodes(g, [0])
    return m


def build(recipe: dict[str, Any]) -> onnx.ModelProto:
    if recipe["t"] == "pair":
        return t_pair(recipe)
    return TEMPLATES[recipe["t"]](recipe)


# ----------------------------------------------------------------------------
# recipe sampling
# ----------------------------------------------------------------------------


def _shape_for_perm(perm: list[int], rng, symbolic: str) -> list[Any]:
    rank = len(perm)
    if rank == 3:
        shape: list[Any] = [[2, 3, 4], [3, 3, 3], [2, 2, 5]][int(rng.integers(3))]
    else:
        shape = [[2, 3, 3, 3], [2, 4, 4, 3], [1, 2, 3, 4]][int(rng.integers(3))]
    shape = [int(d) for d in shape]
    if symbolic != "none":
        shape[0] = "B"
    return shape


def _chain(rng, max_len: int) -> list[dict[str, Any]]:
    n = int(rng.integers(0, max_len + 1))
    out = []
    for _ in range(n):
        u = rng.random()
        if u < 0.45:
            out.append({"op": str(rng.choice(UNARY))})
        elif u < 0.55:
            out.append({"op": "Clip"})
        elif u < 0.92:
            out.append({"op": str(rng.choice(BINARY)), "side": str(rng.choice(SIDE_KINDS)), "data_first": bool(rng.random() < 0.7)})
        else:
            out.append({"op": str(rng.choice(NON_MEMBERS))})
    return out


def _extras(rng, n_mids: int) -> dict[str, list[int]]:
    d: dict[str, list[int]] = {"extra_outputs": [], "extra_consumers": [], "extra_captures": []}
    if n_mids and rng.random() < 0.2:
        d["extra_captures"] = sorted(set(int(i) for i in rng.integers(0, n_mids, 1)))
    if n_mids and rng.random() < 0.35:
        d["extra_outputs"] = sorted(set(int(i) for i in rng.integers(0, n_mids, int(rng.integers(1, 3)))))
    if n_mids and rng.random() < 0.25:
        d["extra_consumers"] = sorted(set(int(i) for i in rng.integers(0, n_mids, 1)))
    return d


def sample(template: str, rng: np.random.Generator) -> dict[str, Any]:
    opset = int(rng.choice([21, 24]))
    seed = int(rng.integers(2**31))
    if template == "transpose_chain":
        perm1 = [int(v) for v in (PERMS3 if rng.random() < 0.5 else PERMS4)[int(rng.integers(6))]]
        u = rng.random()
        perm2 = inverse(perm1) if u < 0.75 else (perm1 if u < 0.9 else [int(v) for v in rng.permutation(len(perm1))])
        chain = _chain(rng, 3)
        return {"t": template, "opset": opset, "seed": seed, "perm1": perm1, "perm2": perm2, "shape": _shape_for_perm(perm1, rng, str(rng.choice(["none", "none", "B"]))), "chain": chain, **_extras(rng, len(chain) + 1)}
    if template == "transpose_reduce":
        perm1 = [int(v) for v in (PERMS3 if rng.random() < 0.4 else PERMS4)[int(rng.integers(6))]]
        rank = len(perm1)
        k = int(rng.integers(1, 3))
        axes = sorted(set(int(a) for a in rng.integers(-rank, rank, k)))
        if len({a % rank for a in axes}) != len(axes):
            axes = [axes[0]]
        if rng.random() < 0.1:
            axes = None
        keepdims = int(rng.random() < 0.8)
        perm2 = inverse(perm1) if rng.random() < 0.8 else perm1
        return {"t": template, "opset": opset, "seed": seed, "perm1": perm1, "perm2": perm2, "shape": _shape_for_perm(perm1, rng, str(rng.choice(["none", "B"]))), "axes": axes, "keepdims": keepdims if axes is not None else 1, "axes_as_input": bool(axes is not None),
                "reduce_op": str(rng.choice(["ReduceMean", "ReduceMean", "ReduceSum", "ReduceMax"])), "pre_unary": bool(rng.random() < 0.2), **_extras(rng, 2)}
    if template == "add_forest":
        perm1 = [int(v) for v in PERMS4[int(rng.integers(3))]] if rng.random() < 0.7 else [int(v) for v in PERMS3[int(rng.integers(1, 6))]]
        perm2 = inverse(perm1) if rng.random() < 0.8 else perm1
        k = int(rng.integers(2, 5))
        r = {"t": template, "opset": opset, "seed": seed, "perm1": perm1, "perm2": perm2, "shape": _shape_for_perm(perm1, rng, str(rng.choice(["none", "B"]))), "n_inputs": k,
             "op": str(rng.choice(["Add", "Add", "Add", "Mul", "Sub"])), "second_inverse": bool(rng.random() < 0.2), **_extras(rng, 2 * k - 1)}
        if rng.random() < 0.2:
            r["odd_perm_at"] = int(rng.integers(k))
            r["odd_perm"] = inverse(perm1)
        if rng.random() < 0.3:
            r["scale_const"] = str(rng.choice(["scalar", "vector_last", "full_const"]))
        if rng.random() < 0.3:
            r["second_exit_perm"] = [int(v) for v in rng.permutation(len(perm1))]
            r["second_exit_from_last"] = bool(rng.random() < 0.5)
        return r
    if template == "reshape_pair":
        sym = rng.random() < 0.3
        choices = [([2, 6], [3, 4], [3, 4], [2, 6]), ([4, 3], [2, 6], [2, 6], [4, 3]), ([2, 3, 4], [6, 4], [6, 4], [2, 3, 4]), ([2, 6], [12], [12], [3, 4]), ([2, 6], [3, 4], [3, 4], [4, 3]), ([3, 4], [4, 3], [4, 3], [3, 4])]
        shape, mid_shape, mid_conc, final = [list(v) for v in choices[int(rng.integers(len(choices)))]]
        if sym:
            shape, mid_shape, mid_conc, final = ["B", 4], [-1, 2], ["M", 2], [-1, 4]
            if rng.random() < 0.5:
                final = [4, -1]
        chain = _chain(rng, 2)
        if sym:
            chain = [st for st in chain if st.get("side") not in ("full_const", "second_input", "vector_last")]
        return {"t": template, "opset": opset, "seed": seed, "shape": shape, "mid_shape": mid_shape, "mid_conc": mid_conc, "final_shape": final, "chain": chain, **_extras(rng, len(chain) + 1)}
    if template == "reshape_two_inputs":
        return {"t": template, "opset": opset, "seed": seed, "shape_a": ["B", 4], "shape_b": [4, "N"] if rng.random() < 0.7 else ["B", 4], "mid_shape": [4, -1] if rng.random() < 0.5 else [-1, 2]}
    if template == "identity_reshape":
        shape = [[2, 3], [4], [1, 5], [2, 1, 3]][int(rng.integers(4))] if rng.random() < 0.7 else ["B", 3]
        conc = [d if isinstance(d, int) else 2 for d in shape]
        u = rng.random()
        target = list(conc)
        if u < 0.25:
            target[int(rng.integers(len(target)))] = -1
        elif u < 0.4:
            target[int(rng.integers(len(target)))] = 0
        elif u < 0.55:
            target = target[::-1]
        elif u < 0.65 and isinstance(shape[0], str):
            target = [2, 3]
        return {"t": template, "opset": opset, "seed": seed, "shape": shape, "target": target, "allowzero": (int(rng.integers(2)) if rng.random() < 0.3 else None), "pre": bool(rng.random() < 0.5), "reshape_is_output": bool(rng.random() < 0.3)}
    if template == "cast_pair":
        kinds = ["f32", "f64", "f16", "i8", "i16", "i32", "i64", "u8", "u16", "u32", "u64", "bool"]
        T, U = str(rng.choice(kinds)), str(rng.choice(kinds))
        r = {"t": template, "opset": opset, "seed": seed, "T": T, "U": U, "variant": str(rng.choice(["plain", "plain", "mid_is_output", "two_consumers", "mid_captured_by_if"])), "pre_identity": bool(rng.random() < 0.3)}
        if rng.random() < 0.15:
            r["T2"] = str(rng.choice(kinds))
        return r
    if template == "mul_sigmoid":
        return {"t": template, "opset": opset, "seed": seed, "shape": [2, 3], "pre": bool(rng.random() < 0.5), "same": bool(rng.random() < 0.75), "order": int(rng.integers(2)), "sigmoid_is_output": bool(rng.random() < 0.3), "sigmoid_second_consumer": bool(rng.random() < 0.3), "sigmoid_captured_by_if": bool(rng.random() < 0.3)}
    if template == "mul_rsqrt":
        return {"t": template, "opset": opset, "seed": seed, "shape": [2, 3], "form": str(rng.choice(["reciprocal", "div"])), "order": int(rng.integers(2)), "rsqrt_is_output": bool(rng.random() < 0.3), "rsqrt_second_consumer": bool(rng.random() < 0.3), "rsqrt_captured_by_if": bool(rng.random() < 0.25), "sqrt_captured_by_if": bool(rng.random() < 0.25)}
    if template == "dropout_not":
        return {"t": template, "opset": opset, "seed": seed, "shape": [2, 3], "deterministic": True, "via_not": bool(rng.random() < 0.8), "ratio": float(rng.choice([0.0, 0.5, 0.9])), "mask_out": bool(rng.random() < 0.4), "not_is_output": bool(rng.random() < 0.3)}
    if template == "range_cast":
        T = str(rng.choice(["i64", "i32", "i64"]))
        U = str(rng.choice(["i8", "u8", "i16", "i32", "f16", "f32", "u16", "bool", "i64"]))
        start, delta = int(rng.integers(-300, 300)), int(rng.choice([-40, -7, -1, 1, 3, 50, 129]))
        n = int(rng.integers(0, 9))
        limit = start + delta * n + int(rng.integers(0, abs(delta)))*(1 if delta>0 else -1)
        ops = [str(o) for o in rng.choice(["Unsqueeze", "Identity", "Reshape", "AddOne"], int(rng.integers(0, 3)), p=[0.3, 0.3, 0.2, 0.2])]
        return {"t": template, "opset": opset, "seed": seed, "T": T, "U": U, "start": start, "limit": limit, "delta": delta, "shape_ops": ops, "add": int(rng.choice([1, 200, -200, 40000]))}
    if template == "dead_and_prune":
        names = [["in_0", "in_1", "in_2"], ["a", "in_1", "c"], ["x", "y", "z"], ["in_2", "in_0", "in_1"]][int(rng.integers(4))]
        return {"t": template, "opset": opset, "seed": seed, "input_names": names, "used": int(rng.integers(3)), "input_is_output": (int(rng.integers(3)) if rng.random() < 0.4 else None)}
    if template == "in_if":
        perm1 = [int(v) for v in PERMS4[int(rng.integers(3))]]
        chain = [str(o) for o in rng.choice(["Relu", "Tanh", "Neg", "MaxTensor"], int(rng.integers(0, 3)))]
        return {"t": template, "opset": opset, "seed": seed, "perm1": perm1, "perm2": inverse(perm1) if rng.random() < 0.8 else perm1, "shape": [2, 3, 3, 3], "chain": chain, "outer_also_transposed": bool(rng.random() < 0.4)}
    if template == "in_function":
        perm1 = [int(v) for v in PERMS4[int(rng.integers(3))]]
        chain = [str(o) for o in rng.choice(["Relu", "Tanh", "Neg", "Sigmoid"], int(rng.integers(0, 3)))]
        return {"t": template, "opset": opset, "seed": seed, "perm1": perm1, "perm2": inverse(perm1) if rng.random() < 0.8 else perm1, "shape": [2, 3, 3, 3], "chain": chain, "unused_fn_input": bool(rng.random() < 0.5)}
    raise ValueError(template)


WEIGHTS = {
    "transpose_chain": 30, "transpose_reduce": 12, "add_forest": 10, "reshape_pair": 14, "reshape_two_inputs": 2, "identity_reshape": 6,
    "cast_pair": 10, "mul_sigmoid": 5, "mul_rsqrt": 5, "dropout_not": 3, "range_cast": 5, "dead_and_prune": 2, "in_if": 4, "in_function": 4,
}


PAIRABLE = ("transpose_chain", "transpose_reduce", "add_forest", "reshape_pair", "identity_reshape", "cast_pair", "mul_sigmoid", "mul_rsqrt", "range_cast", "in_if")


def recipes(n: int, seed: int) -> list[dict[str, Any]]:
    rng = np.random.default_rng([seed, 202])
    names = list(WEIGHTS)
    p = np.array([WEIGHTS[k] for k in names], float)
    p /= p.sum()
    out = []
    for i in range(n):
        t = str(rng.choice(names, p=p))
        r = sample(t, rng)
        r["id"] = f"{t}:{i}"
        out.append(r)
    # one graph, two pattern instances (same template twice in 2 of 3 draws): separate stream, the singles stay as they were
    rng2 = np.random.default_rng([seed, 303])
    for i in range(max(1, n // 7)):
        ta = str(rng2.choice(PAIRABLE))
        tb = ta if rng2.random() < 0.67 else str(rng2.choice(PAIRABLE))
        a = sample(ta, rng2)
        b = sample(tb, rng2)
        b["opset"] = a["opset"]
        out.append({"t": "pair", "a": a, "b": b, "opset": a["opset"], "seed": int(rng2.integers(2**31)), "interleave": bool(rng2.random() < 0.5), "id": f"pair[{ta}+{tb}]:{i}"})
    return out
