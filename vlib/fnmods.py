"""Module-level @onnx_function targets used by sentinel programs.

jax2onnx patches `getattr(module, name)` for every decorated callable during every
later conversion of the process, so decorated targets must be importable module
attributes (a decorated closure makes all later conversions raise AttributeError).
"""

from __future__ import annotations

import numpy as np
from jax2onnx import onnx_function


@onnx_function
def c09_inner(v):
    return v * 0.1 + np.array([0.1, 0.2, 0.3]) + 1.0 / 3.0


def c09_outer(x):
    return c09_inner(x) * 0.7


def c09_plain(x):
    return (x * 0.1 + np.array([0.1, 0.2, 0.3]) + 1.0 / 3.0) * 0.7


@onnx_function
def c04_inner(a, b):
    import jax.numpy as jnp

    return jnp.concatenate([a * 2, b + 1], axis=0).sum(axis=0) + a.shape[0] * 10 + b.shape[0]


def c04_outer(a, b):
    return c04_inner(a, b) * 3 + c04_inner(b, a)


_C15_W = np.random.default_rng([520, 99]).standard_normal((520, 520)).astype(np.float32) / 23.0


@onnx_function
def c15_inner(v):
    import jax.numpy as jnp

    return jnp.tanh(v @ _C15_W)


def c15_outer(x):
    return c15_inner(x) * 2.0 + c15_inner(x * 0.5)


def _c16_prim():
    from jax.extend.core import Primitive
    from jax.interpreters import mlir

    p = Primitive("c16_unregistered_in_function")
    p.def_impl(lambda x: x * 2.0 + 1.0)
    p.def_abstract_eval(lambda x: x)
    mlir.register_lowering(p, mlir.lower_fun(lambda x: x * 2.0 + 1.0, multiple_results=False))
    return p


_C16_P = _c16_prim()


@onnx_function
def c16_inner_unregistered(v):
    return _C16_P.bind(v) * 0.5


def c16_outer_with_unregistered(x):
    return c16_inner_unregistered(x) + 1.0


@onnx_function
def c16_inner_tanh(v):
    from jax import lax

    return lax.tanh(v) * 0.5


def c16_outer_tanh(x):
    return c16_inner_tanh(x) + 1.0


@onnx_function
def c13_leaf(v):
    import jax.numpy as jnp

    return jnp.tanh(v) * 0.5 + jnp.reshape(v, v.shape)


@onnx_function
def c13_mid(v):
    return c13_leaf(v) + c13_leaf(v * 2.0)


def c13_outer(x):
    return c13_mid(x) * 1.5 - c13_leaf(x)


class _C13Fault(RuntimeError):
    pass


@onnx_function
def c13_raising_leaf(v):
    from checks.c13 import Fault

    raise Fault("user function raises while traced (function body)")


def c13_outer_raising(x):
    import jax.numpy as jnp

    return c13_raising_leaf(jnp.tanh(x)) + 1.0


@onnx_function
def c13_mid_raising(v):
    return c13_raising_leaf(c13_leaf(v))


def c13_outer_nested_raising(x):
    return c13_mid_raising(x) + c13_leaf(x)


class _C14Block:
    def __init__(self, w):
        self.w = w

    def __call__(self, x):
        import jax.numpy as jnp

        return jnp.tanh(x @ self.w)


_C14_WA = np.arange(16, dtype=np.float32).reshape(4, 4) / 16.0
_C14_WB = _C14_WA[::-1].copy()


@onnx_function
def c14_block_a(x):
    return _C14Block(_C14_WA)(x)


@onnx_function
def c14_block_b(x):
    return _C14Block(_C14_WB)(x)


def c14_outer(x):
    return c14_block_a(x) + c14_block_b(x) + c14_block_a(x * 2.0)


@onnx_function
def c06_fn_in_loop(v):
    import jax.numpy as jnp

    return jnp.tanh(v) * 0.5 + 0.1


def c06_loop_with_function(x):
    from jax import lax

    return lax.fori_loop(0, 3, lambda i, v: c06_fn_in_loop(v) + v, x)


c13_jit_helper = None  # replaced by a fresh jax.jit callable before every use


@onnx_function
def c13_fn_with_jit(v):
    return c13_jit_helper(v) * 0.5 + 1.0


def c13_outer_with_jit_in_body(x):
    return c13_fn_with_jit(x) - x


@onnx_function
def c14_inner_params(x, deterministic=True, scale=1.0, flag=False):
    import jax.numpy as jnp

    return jnp.where(deterministic, x * scale, x * 0.0) + jnp.where(flag, 1.0, 0.0)


def c14_outer_params(x, deterministic=True, scale=1.0, flag=False):
    return c14_inner_params(x, deterministic=deterministic, scale=scale, flag=flag) * 2.0


@onnx_function
def c14_gated(x, gain=1.0):
    """`gain` is traced during the outer trace and a raw Python value in the body re-trace."""
    import jax.numpy as jnp

    return jnp.tanh(x) * gain.astype(x.dtype) if hasattr(gain, "astype") else _c14_fail(gain)


def _c14_fail(gain):
    raise AttributeError("'float' object has no attribute 'astype' (raised only in the body re-trace)")


def c14_gated_model(x):
    import jax.numpy as jnp

    return c14_gated(x, gain=jnp.float32(2.0)) + 1.0


def c14_gated_failing(x):
    return c14_gated(x, gain=0.5) + 1.0


# ---- C13: user classes that *inherit* the attribute jax2onnx patches from a library layer ----
from flax import nnx as _nnx  # noqa: E402


@onnx_function
class C13InheritedLinear(_nnx.Linear):
    """Only a custom constructor: `__call__` is inherited from nnx.Linear (which has a leaf plugin)."""

    def __init__(self, rngs):
        super().__init__(3, 4, rngs=rngs)


@onnx_function
class C13InheritedLayerNorm(_nnx.LayerNorm):
    def __init__(self, rngs):
        super().__init__(3, rngs=rngs)


@onnx_function
class C13OverridingLinear(_nnx.Linear):
    def __init__(self, rngs):
        super().__init__(3, 4, rngs=rngs)

    def __call__(self, x):
        return super().__call__(x) * 2.0


class C13PlainSubclass(_nnx.Linear):
    def __init__(self, rngs):
        super().__init__(3, 4, rngs=rngs)


C13_USER_CLASSES = (C13InheritedLinear, C13InheritedLayerNorm, C13OverridingLinear, C13PlainSubclass)


# ---- C11: opset-gated components inside an ONNX function body ----
_C11_RMS = _nnx.RMSNorm(6, rngs=_nnx.Rngs(1))


@onnx_function
def c11_gated_body(v):
    import jax
    from jax import lax
    import jax.numpy as jnp

    return _C11_RMS(v) + jax.nn.silu(v) + lax.dynamic_update_slice(v, jnp.ones((1, 2), v.dtype), (0, 1))


def c11_outer(x):
    return c11_gated_body(x) * 0.5 + c11_gated_body(x + 1.0)


# ---- C09: module instances whose float64 parameters differ below float32 resolution ----
def _c09_scale_call(self, x):
    import jax.numpy as jnp

    w = jnp.asarray(self.w.value, dtype=x.dtype)
    return jnp.tanh(x) * w + w


@onnx_function(unique=True)
class C09UniqueScale(_nnx.Module):
    def __init__(self, w):
        self.w = _nnx.Param(w)

    __call__ = _c09_scale_call


@onnx_function
class C09Scale(_nnx.Module):
    def __init__(self, w):
        self.w = _nnx.Param(w)

    __call__ = _c09_scale_call


class C09PlainScale(_nnx.Module):
    def __init__(self, w):
        self.w = _nnx.Param(w)

    __call__ = _c09_scale_call


C09_W = np.array([0.5, 0.625, 0.75], np.float64)  # spacing of float32 in [0.5, 1) is 6e-8
C09_W_CLOSE = C09_W + 2e-8  # the same float32 values, different float64 values


def c09_close_instances(cls):
    import jax.numpy as jnp

    from vlib import registry

    with registry.x64(True):  # float64 device arrays, as in a session that works in double precision
        a, b = cls(jnp.asarray(C09_W, dtype=jnp.float64)), cls(jnp.asarray(C09_W_CLOSE, dtype=jnp.float64))
    return lambda x: (b(x) - a(x), a(x) + b(x) * 3.0)


@onnx_function
def c04_scalar_summary(v):
    import jax.numpy as jnp

    return jnp.sum(jnp.tanh(v) * 2.0) + jnp.max(v)


def _c13_leaf_v2(v):
    """Body of a re-definition of c13_leaf (bound to the name c13_leaf at run time by the C13 re-binding history)."""
    import jax.numpy as jnp

    return jnp.sin(v) * 3.0 - 0.25
