"""Execution substrate: parent/worker sharding, watchdogs, verdict aggregation.

A check module (checks/cNN.py) provides

    PROPERTY, LEVEL, RULE, ASSUMPTIONS
    enumerate_cases(tier, seed) -> list[dict]   (each with a unique, stable "key"; optional "cost")
    run_case(case, tier, seed)  -> record dict
    floors(tier) -> {"evaluations": int, "distinct_nontrivial": int}
    (optional) finalize(records, tier, seed) -> extra coverage dict / extra violations

A record is

    {"key": str, "status": "held"|"violated"|"inconclusive"|"skipped",
     "reason": str (for inconclusive / skipped),
     "evals": int, "nontrivial": [str, ...], "violations": [violation, ...],
     "obs": {counter: int}, "sample": any}

and a violation is

    {"family": str, "kind": str, "cls": str, "text": str, "detail": {...}}

Matching against known_findings.json is on (property, family, kind) and
membership of "cls" in the entry's "classes" (see vlib.findings).
"""

from __future__ import annotations

import hashlib
import importlib
import json
import os
import shutil
import signal
import subprocess
import sys
import tempfile
import time
import traceback
from typing import Any

VERIF = os.path.dirname(os.path.dirname(os.path.abspath(__file__)))
REPO = os.environ.get("VERIF_REPO", "/repo")
PY = os.environ.get("VERIF_PYTHON", "/venv/bin/python")


class CaseTimeout(BaseException):
    pass


def stable_hash(s: str) -> int:
    return int(hashlib.sha256(s.encode("utf-8")).hexdigest()[:12], 16)


def worker_env(extra: dict[str, str] | None = None) -> dict[str, str]:
    env = dict(os.environ)
    env.setdefault("PYTHONHASHSEED", "0")
    env["JAX_PLATFORM_NAME"] = "cpu"
    env["JAX_PLATFORMS"] = "cpu"
    env.setdefault("XLA_FLAGS", "--xla_cpu_multi_thread_eigen=false intra_op_parallelism_threads=1")
    env["OMP_NUM_THREADS"] = "1"
    env["OPENBLAS_NUM_THREADS"] = "1"
    env["MKL_NUM_THREADS"] = "1"
    env["TF_CPP_MIN_LOG_LEVEL"] = "3"
    env["JAX2ONNX_VERIF"] = "1"
    pp = [VERIF, REPO]
    if env.get("PYTHONPATH"):
        pp.append(env["PYTHONPATH"])
    env["PYTHONPATH"] = os.pathsep.join(pp)
    if extra:
        env.update(extra)
    return env


def repo_state() -> dict[str, Any]:
    def _git(*a: str) -> str:
        try:
            return subprocess.run(
                ["git", "-C", REPO, *a], capture_output=True, text=True, timeout=30
            ).stdout.strip()
        except Exception:
            return ""

    return {
        "repo": REPO,
        "head": _git("rev-parse", "HEAD"),
        "dirty": bool(_git("status", "--porcelain", "--untracked-files=no")),
    }


# ----------------------------------------------------------------------------
# worker side
# ----------------------------------------------------------------------------


def _alarm_handler(signum, frame):  # noqa: ARG001
    raise CaseTimeout()


def _jsonable(o: Any) -> Any:
    import numpy as np

    if isinstance(o, dict):
        return {str(k): _jsonable(v) for k, v in o.items()}
    if isinstance(o, (list, tuple, set, frozenset)):
        return [_jsonable(v) for v in o]
    if isinstance(o, (np.integer,)):
        return int(o)
    if isinstance(o, (np.floating,)):
        return float(o)
    if isinstance(o, (np.bool_,)):
        return bool(o)
    if isinstance(o, np.ndarray):
        if o.size <= 64:
            return {"dtype": str(o.dtype), "shape": list(o.shape), "values": o.tolist()}
        return {"dtype": str(o.dtype), "shape": list(o.shape), "head": o.ravel()[:16].tolist()}
    if isinstance(o, (str, int, float, bool)) or o is None:
        return o
    return repr(o)[:300]


def worker_main(argv: list[str]) -> int:
    check_id, tier, seed_s, claim_dir, out_path, case_timeout_s = argv[:6]
    skip_path = argv[6] if len(argv) > 6 else ""
    seed = int(seed_s)
    case_timeout = int(case_timeout_s)
    os.environ["VERIF_TIER"] = tier
    os.environ["VERIF_SEED"] = str(seed)
    out = open(out_path, "a", buffering=1)

    def emit(obj: dict[str, Any]) -> None:
        out.write(json.dumps(_jsonable(obj), default=repr) + "\n")
        out.flush()

    try:
        mod = importlib.import_module(f"checks.{check_id.lower()}")
        import jax2onnx  # noqa: F401

        jf = os.path.realpath(jax2onnx.__file__)
        if not jf.startswith(os.path.realpath(REPO) + os.sep):
            emit({"_fatal": f"jax2onnx imported from {jf}, not from {REPO}"})
            return 3
        cases = mod.enumerate_cases(tier, seed)
    except BaseException:
        emit({"_fatal": traceback.format_exc()[-4000:]})
        return 3

    keys = [c["key"] for c in cases]
    if len(set(keys)) != len(keys):
        dup = sorted({k for k in keys if keys.count(k) > 1})[:5]
        emit({"_fatal": f"duplicate case keys: {dup}"})
        return 3
    skip: set[str] = set()
    if skip_path and os.path.exists(skip_path):
        skip = set(json.load(open(skip_path)))

    # identical order in every worker: cost-descending, ties by key hash
    order = sorted(
        range(len(cases)),
        key=lambda i: (-float(cases[i].get("cost", 1.0)), stable_hash(keys[i])),
    )
    emit({"_enumerated": len(cases)})
    signal.signal(signal.SIGALRM, _alarm_handler)
    # hard watchdog: SIGALRM is only honoured between bytecodes; a case stuck inside
    # native code (a non-terminating XLA while loop, an ORT kernel) is ended by
    # terminating the worker - the parent marks the case inconclusive and respawns.
    import threading

    hard: dict[str, Any] = {"deadline": None, "key": None}

    def _watch() -> None:
        while True:
            time.sleep(2.0)
            dl = hard["deadline"]
            if dl is not None and time.time() > dl:
                try:
                    emit({"key": hard["key"], "status": "inconclusive", "reason": "hard_timeout(native code did not return)"})
                finally:
                    os._exit(17)

    threading.Thread(target=_watch, daemon=True).start()
    for i in order:
        case = cases[i]
        key = case["key"]
        if key in skip:
            continue
        try:
            fd = os.open(
                os.path.join(claim_dir, hashlib.sha256(key.encode()).hexdigest()[:24]),
                os.O_CREAT | os.O_EXCL | os.O_WRONLY,
            )
            os.close(fd)
        except FileExistsError:
            continue
        emit({"_start": key})
        t0 = time.time()
        tmo = int(case.get("timeout", case_timeout))
        signal.alarm(tmo)
        hard["key"] = key
        hard["deadline"] = time.time() + tmo + max(30, tmo // 2)
        try:
            rec = mod.run_case(case, tier, seed)
            signal.alarm(0)
            if not isinstance(rec, dict):
                raise TypeError("run_case must return a dict")
        except CaseTimeout:
            rec = {"status": "inconclusive", "reason": "case_timeout"}
        except BaseException as exc:  # harness error: never a verdict
            signal.alarm(0)
            if isinstance(exc, KeyboardInterrupt):
                raise
            rec = {
                "status": "inconclusive",
                "reason": "harness_error",
                "trace": traceback.format_exc()[-3000:],
            }
        finally:
            signal.alarm(0)
            hard["deadline"] = None
        rec["key"] = key
        if rec.get("violations"):
            rec["case"] = case
        rec["wall"] = round(time.time() - t0, 3)
        rec.setdefault("status", "held")
        emit(rec)
    emit({"_done": True})
    return 0


# ----------------------------------------------------------------------------
# parent side
# ----------------------------------------------------------------------------


def _read_records(paths: list[str]) -> tuple[dict[str, dict], list[str], set[str], int, bool]:
    records: dict[str, dict] = {}
    fatals: list[str] = []
    started: set[str] = set()
    enumerated = 0
    for p in paths:
        if not os.path.exists(p):
            continue
        for line in open(p):
            line = line.strip()
            if not line:
                continue
            try:
                obj = json.loads(line)
            except Exception:
                continue
            if "_fatal" in obj:
                fatals.append(obj["_fatal"])
            elif "_start" in obj:
                started.add(obj["_start"])
            elif "_enumerated" in obj:
                enumerated = max(enumerated, int(obj["_enumerated"]))
            elif "_done" in obj:
                pass
            elif "key" in obj:
                records[obj["key"]] = obj
    return records, fatals, started, enumerated, True


def run_workers(
    check_id: str,
    tier: str,
    seed: int,
    *,
    n_workers: int,
    case_timeout: int,
    global_timeout: int,
    extra_env: dict[str, str] | None = None,
) -> dict[str, Any]:
    """Run all cases of a check in worker subprocesses; return raw results."""
    tmp = tempfile.mkdtemp(prefix=f"verif_{check_id}_")
    claim_dir = os.path.join(tmp, "claims")
    os.makedirs(claim_dir)
    t0 = time.time()
    deadline = t0 + global_timeout
    all_outs: list[str] = []
    crashed: list[str] = []
    killed_by_deadline = False
    try:
        generation = 0
        skip_path = os.path.join(tmp, "skip.json")
        while True:
            outs = [os.path.join(tmp, f"w{generation}_{i}.jsonl") for i in range(n_workers)]
            all_outs.extend(outs)
            procs = []
            for i in range(n_workers):
                cmd = [
                    PY,
                    "-m",
                    "vlib.worker",
                    check_id,
                    tier,
                    str(seed),
                    claim_dir,
                    outs[i],
                    str(case_timeout),
                    skip_path,
                ]
                log = open(os.path.join(tmp, f"w{generation}_{i}.log"), "w")
                procs.append(
                    subprocess.Popen(
                        cmd,
                        cwd=VERIF,
                        env=worker_env(extra_env),
                        stdout=log,
                        stderr=subprocess.STDOUT,
                    )
                )
            while any(p.poll() is None for p in procs):
                if time.time() > deadline:
                    killed_by_deadline = True
                    for p in procs:
                        if p.poll() is None:
                            p.kill()
                    break
                time.sleep(0.5)
            for p in procs:
                try:
                    p.wait(timeout=10)
                except Exception:
                    pass
            records, fatals, started, enumerated, _ = _read_records(all_outs)
            unfinished = sorted(started - set(records))
            died = any((p.returncode not in (0,)) for p in procs)
            if fatals or killed_by_deadline or not died or generation >= 8:
                break
            # a worker died (segfault, OOM): mark its open case, respawn for the rest
            crashed.extend(unfinished)
            json.dump(sorted(set(records) | set(crashed)), open(skip_path, "w"))
            for k in unfinished:
                try:
                    os.remove(
                        os.path.join(claim_dir, hashlib.sha256(k.encode()).hexdigest()[:24])
                    )
                except OSError:
                    pass
            generation += 1
        records, fatals, started, enumerated, _ = _read_records(all_outs)
        for k in sorted(started - set(records)):
            records[k] = {
                "key": k,
                "status": "inconclusive",
                "reason": "global_timeout" if killed_by_deadline and k not in crashed else "worker_died",
            }
        logs_tail = ""
        if fatals:
            logs_tail = fatals[0]
        return {
            "records": records,
            "fatals": fatals,
            "enumerated": enumerated,
            "killed_by_deadline": killed_by_deadline,
            "wall": time.time() - t0,
            "logs_tail": logs_tail,
        }
    finally:
        shutil.rmtree(tmp, ignore_errors=True)


def write_json(path: str, obj: Any) -> None:
    os.makedirs(os.path.dirname(path), exist_ok=True)
    tmp = path + ".tmp"
    with open(tmp, "w") as f:
        json.dump(_jsonable(obj), f, indent=1, sort_keys=False, default=repr)
        f.write("\n")
    os.replace(tmp, path)
