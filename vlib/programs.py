"""Program abstraction shared by the differential checks + the differential driver."""

from __future__ import annotations

from dataclasses import dataclass, field
from typing import Any, Callable, Sequence

import numpy as np

from vlib import inputs as vin
from vlib import oracle, ortrun, registry


@dataclass
class Program:
    pid: str
    family: str
    make_fn: Callable[[], Any]  # fresh callable each time (twins)
    specs: Callable[[], list[Any]]  # `inputs` argument of to_onnx
    signature: Callable[[dict[str, int]], list[tuple[tuple[int, ...], np.dtype]]]
    dp: bool = False
    params: dict[str, Any] = field(default_factory=dict)
    kwargs: dict[str, Any] = field(default_factory=dict)  # further to_onnx kwargs
    given: list[list[np.ndarray]] | None = None  # only these points are in-domain
    given_labels: list[str] | None = None
    symbols: list[str] = field(default_factory=list)
    # per-input admissible classes for hostile draws (None: any)
    float_classes: list[str] | None = None
    int_classes: list[str] | None = None
    numeric: bool = True
    source: str = "registry"
    fix_inputs: Callable[[list[np.ndarray], np.random.Generator], list[np.ndarray]] | None = None

    def export(self, fn: Any | None = None, **over: Any) -> Any:
        from jax2onnx.user_interface import to_onnx

        kw = dict(enable_double_precision=self.dp)
        if self.params:
            kw["input_params"] = self.params
        kw.update(self.kwargs)
        specs = over.pop("inputs", None)
        kw.update(over)
        return to_onnx(fn if fn is not None else self.make_fn(), self.specs() if specs is None else specs, **kw)


def from_registry(tp: dict[str, Any]) -> Program:
    kw = registry.export_kwargs(tp)
    params = kw.pop("input_params")
    kw.pop("enable_double_precision")
    given = None
    if registry.input_kind(tp) == "values":
        given = [registry.given_values(tp)]
    elif registry.input_kind(tp) == "none":
        given = [[]]
    # loops whose trip count is steered by the data: only the project's own value
    # range is known to terminate (a hostile draw made the JAX reference spin forever)
    fc = ic = None
    if "while" in tp["_family"].lower() or "while" in str(tp.get("testcase", "")).lower():
        fc, ic = ["benign"], ["benign"]
    return Program(
        float_classes=fc,
        int_classes=ic,
        pid=tp["_pid"],
        family=tp["_family"],
        make_fn=lambda: registry.instantiate(tp),
        specs=lambda: registry.to_onnx_specs(tp),
        signature=lambda b: registry.input_signature(tp, b),
        dp=tp["_dp"],
        params=dict(params),
        kwargs={k: v for k, v in kw.items() if v is not None},
        given=given,
        symbols=registry.symbols_of(tp),
        numeric=registry.numeric_ok(tp),
    )


NHWC_TO_NCHW = (0, 3, 1, 2)
NCHW_TO_NHWC = (0, 2, 3, 1)


def relevant_class(sig: Sequence[tuple[tuple[int, ...], np.dtype]], fcls: str, icls: str) -> str:
    has_f = any(oracle.dtype_class(dt) in ("float", "complex") for _, dt in sig)
    has_i = any(oracle.dtype_class(dt) == "int" for _, dt in sig)
    if has_f and has_i:
        return f"{fcls}+{icls}"
    if has_i:
        return f"int:{icls}"
    if has_f:
        return fcls
    return "noinput"


@dataclass
class DrawResult:
    cls: str
    status: str  # agree | violation | not_admitted | ort_exception_observed | env_limit | isolated_discretisation
    cmp: oracle.Cmp | None = None
    text: str = ""
    xs: list[np.ndarray] | None = None


def ort_feeds_for(prog: Program, xs: Sequence[np.ndarray]) -> list[np.ndarray]:
    xs = list(xs)
    for i in prog.kwargs.get("inputs_as_nchw") or []:
        if 0 <= i < len(xs) and np.asarray(xs[i]).ndim == 4:
            xs[i] = np.transpose(xs[i], NHWC_TO_NCHW)
    return xs


def ort_outputs_back(prog: Program, outs: list[np.ndarray]) -> list[np.ndarray]:
    outs = list(outs)
    for i in prog.kwargs.get("outputs_as_nchw") or []:
        if 0 <= i < len(outs) and np.asarray(outs[i]).ndim == 4:
            outs[i] = np.transpose(outs[i], NCHW_TO_NHWC)
    return outs


def differential(
    prog: Program,
    draws: Sequence[tuple[str, str]],
    *,
    seed: int,
    binding: dict[str, int] | None = None,
    model: Any | None = None,
    sess: Any | None = None,
    eps_floor: float | None = oracle.F32_EPS,
    K: tuple[float, float, float, float] = oracle.K_DEFAULT,
    ref_dp: bool | None = None,
) -> dict[str, Any]:
    """References first (from a never-exported twin), then export, then ORT.

    Returns {"export_error", "model", "results": [DrawResult], "obs": {...}}."""
    from vlib.substrate import stable_hash

    binding = binding or {s: 2 for s in prog.symbols}
    dp = prog.dp if ref_dp is None else ref_dp
    obs: dict[str, int] = {}

    def bump(k: str, n: int = 1) -> None:
        obs[k] = obs.get(k, 0) + n

    twin = prog.make_fn()
    plan: list[tuple[str, list[np.ndarray], list[np.ndarray] | None, np.random.Generator]] = []
    sig = prog.signature(binding)
    if prog.given is not None:
        for gi, xs in enumerate(prog.given):
            label = prog.given_labels[gi] if prog.given_labels and gi < len(prog.given_labels) else (f"given{gi}" if len(prog.given) > 1 else "given")
            plan.append((label, list(xs), None, np.random.default_rng([seed, 7, gi])))
    else:
        for di, (fcls, icls) in enumerate(draws):
            rng = np.random.default_rng([seed, stable_hash(prog.pid) % (2**31), di])
            if prog.float_classes is not None and fcls not in prog.float_classes:
                continue
            if prog.int_classes is not None and icls not in prog.int_classes:
                continue
            xs = vin.draw(sig, fcls, icls, rng)
            if prog.fix_inputs is not None:
                xs = prog.fix_inputs(xs, rng)
            plan.append((relevant_class(sig, fcls, icls), xs, None, rng))
    # references before the export
    admitted = []
    for cls, xs, _, rng in plan:
        try:
            ref = registry.eval_jax(twin, xs, prog.params, dp)
            admitted.append((cls, xs, ref, rng))
        except Exception as exc:  # noqa: BLE001
            bump("draws_not_admitted_by_jax")
            admitted.append((cls, xs, None, rng))
    results: list[DrawResult] = []
    if model is None:
        try:
            model = prog.export()
        except Exception as exc:  # noqa: BLE001
            return {"export_error": f"{type(exc).__name__}: {str(exc)[:300]}", "model": None, "results": [], "obs": obs}
    if sess is None:
        try:
            sess = ortrun.session(model)
        except ortrun.OrtEnvLimit as exc:
            return {"export_error": None, "model": model, "env_limit": str(exc), "results": [], "obs": obs}
        except ortrun.OrtLoadError as exc:
            return {"export_error": None, "model": model, "load_error": str(exc), "results": [], "obs": obs}
    rnd = registry.randomness(model)
    if rnd == "random":
        return {"export_error": None, "model": model, "random": True, "results": [], "obs": obs}
    if rnd == "maybe":
        for cls, xs, ref, rng in admitted:
            if ref is None:
                continue
            try:
                feed = ortrun.build_feed(sess, ort_feeds_for(prog, xs), prog.params)
                a, b = ortrun.run(sess, feed), ortrun.run(sess, feed)
                if any(x.shape != y.shape or not np.array_equal(x, y, equal_nan=True) for x, y in zip(a, b)):
                    return {"export_error": None, "model": model, "random": True, "results": [], "obs": obs}
            except Exception:  # noqa: BLE001
                pass
            break
    for cls, xs, ref, rng in admitted:
        if ref is None:
            results.append(DrawResult(cls, "not_admitted", xs=xs))
            continue
        int_hostile = any(t in cls for t in ("negative", "moderate", "extreme"))
        try:
            feed = ortrun.build_feed(sess, ort_feeds_for(prog, xs), prog.params)
            got = ort_outputs_back(prog, ortrun.run(sess, feed))
        except ortrun.OrtEnvLimit as exc:
            results.append(DrawResult(cls, "env_limit", text=str(exc), xs=xs))
            bump("ort_env_limit")
            continue
        except (ortrun.OrtRunError, StopIteration, ValueError) as exc:
            oob = "out of data bounds" in str(exc) or "indices element out of" in str(exc)
            if int_hostile or oob:
                results.append(DrawResult(cls, "ort_exception_observed", text=str(exc)[:300], xs=xs))
                bump("ort_exception_on_out_of_convention_ints")
            else:
                results.append(
                    DrawResult(cls, "violation", cmp=oracle.Cmp(False, "ort_error", f"ORT raised: {str(exc)[:300]}"), xs=xs)
                )
            continue
        lazy = oracle.make_lazy(prog.make_fn, xs, prog.params, dp, rng, registry.eval_jax)
        lazy.discrete_ref64 = prog.source == "generated"
        c = oracle.compare(ref, got, lazy=lazy, eps_floor=eps_floor, K=K)
        bump("elements_compared", c.n_compared)
        bump("masked_nonfinite_reference_elements", c.masked_nonfinite)
        if c.ok:
            results.append(DrawResult(cls, "agree", cmp=c, xs=xs))
        elif c.unstable_only:
            results.append(DrawResult(cls, "isolated_discretisation", cmp=c, xs=xs, text=c.text))
        else:
            results.append(DrawResult(cls, "violation", cmp=c, xs=xs, text=c.text))
    # discretisation guard: unstable-only mismatches count when they repeat in >= 2 draws of a class
    by_cls: dict[str, list[DrawResult]] = {}
    for r in results:
        by_cls.setdefault(r.cls, []).append(r)
    for cls, rs in by_cls.items():
        iso = [r for r in rs if r.status == "isolated_discretisation"]
        if len(iso) >= 2:
            for r in iso:
                r.status = "violation"
                r.text = "repeated on independent draws: " + r.text
        else:
            for r in iso:
                bump("isolated_discretisation_flips")
    return {"export_error": None, "model": model, "results": results, "obs": obs}
