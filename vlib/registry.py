"""P1: the registry corpus, enumerated live from the working tree."""

from __future__ import annotations

import contextlib
import logging
import os
from typing import Any, Iterator, Sequence

import numpy as np

_CORPUS: list[dict[str, Any]] | None = None

HEAVY_MARKERS = (
    "dinov3",
    "Dino",
    "gpt",
    "GPT",
    "vit",
    "ViT",
    "Vit",
    "resnet",
    "ResNet",
    "maxtext",
    "MaxText",
)


def _quiet() -> None:
    logging.disable(logging.CRITICAL)
    os.environ.setdefault("TF_CPP_MIN_LOG_LEVEL", "3")


def corpus() -> list[dict[str, Any]]:
    """All test-parameter variants (dicts of tests.t_generator) with a stable id."""
    global _CORPUS
    if _CORPUS is not None:
        return _CORPUS
    _quiet()
    import tests.t_generator as tg

    out: list[dict[str, Any]] = []
    seen: dict[str, int] = {}
    for entry in tg.load_plugin_metadata():
        try:
            variants = tg.generate_test_params(entry)
        except Exception:  # malformed metadata: counted by the caller through absence
            continue
        for tp in variants:
            tp = dict(tp)
            dp = bool(tp.get("_enable_double_precision_test_setting", False))
            base = f"{tp.get('context','?')}/{tp.get('component','?')}/{tp.get('testcase','?')}"
            pid = f"{base}#{'f64' if dp else 'f32'}"
            n = seen.get(pid, 0)
            seen[pid] = n + 1
            if n:
                pid = f"{pid}~{n}"
            tp["_pid"] = pid
            tp["_family"] = f"{tp.get('context','?')}/{tp.get('component','?')}"
            tp["_dp"] = dp
            out.append(tp)
    out.sort(key=lambda t: t["_pid"])
    _CORPUS = out
    return out


def by_pid(pid: str) -> dict[str, Any]:
    for tp in corpus():
        if tp["_pid"] == pid:
            return tp
    raise KeyError(pid)


def is_heavy(tp: dict[str, Any]) -> bool:
    s = tp["_pid"]
    if tp.get("context", "").startswith("examples"):
        return any(m in s for m in HEAVY_MARKERS)
    return False


@contextlib.contextmanager
def x64(enabled: bool) -> Iterator[None]:
    import jax

    prev = bool(jax.config.jax_enable_x64)
    if prev != bool(enabled):
        jax.config.update("jax_enable_x64", bool(enabled))
    try:
        yield
    finally:
        if bool(jax.config.jax_enable_x64) != prev:
            jax.config.update("jax_enable_x64", prev)


def instantiate(tp: dict[str, Any], dp: bool | None = None) -> Any:
    """A fresh callable for the testcase (twins come from calling this twice)."""
    dp = tp["_dp"] if dp is None else dp
    obj = tp["callable"]
    if hasattr(obj, "instantiate"):
        with x64(dp):
            return obj.instantiate()
    return obj


def symbols_of(tp: dict[str, Any]) -> list[str]:
    syms: list[str] = []
    for shp in tp.get("input_shapes") or []:
        if isinstance(shp, (list, tuple)):
            for d in shp:
                if isinstance(d, str) and d not in syms:
                    syms.append(d)
    return syms


def input_kind(tp: dict[str, Any]) -> str:
    if tp.get("input_shapes") is not None:
        return "shapes"
    if tp.get("input_values") is not None:
        return "values"
    return "none"


def to_onnx_specs(tp: dict[str, Any]) -> list[Any]:
    """The `inputs` argument exactly as tests/t_generator builds it."""
    import jax
    import jax.numpy as jnp

    dp = tp["_dp"]
    shapes = tp.get("input_shapes")
    dtypes = tp.get("input_dtypes")
    values = tp.get("input_values")
    if shapes is not None:
        specs: list[Any] = []
        if dtypes:
            for shp, dt in zip(shapes, dtypes):
                shp_t = tuple(shp) if isinstance(shp, (list, tuple)) else (shp,)
                if dp and np.issubdtype(dt, np.floating):
                    dt = jnp.float64
                specs.append(jax.ShapeDtypeStruct(shp_t, dt))
        else:
            for shp in shapes:
                specs.append(tuple(shp) if isinstance(shp, (list, tuple)) else (shp,))
        return specs
    if values is not None:
        specs = []
        for val in values:
            arr = np.array(val)
            if dp and np.issubdtype(arr.dtype, np.floating):
                specs.append(jax.ShapeDtypeStruct(arr.shape, jnp.float64))
            else:
                specs.append(jax.ShapeDtypeStruct(arr.shape, arr.dtype))
        return specs
    return []


def input_signature(tp: dict[str, Any], binding: dict[str, int] | None = None) -> list[tuple[tuple[int, ...], np.dtype]]:
    """Concrete (shape, dtype) of each positional runtime input."""
    dp = tp["_dp"]
    binding = binding or {}
    shapes = tp.get("input_shapes")
    dtypes = tp.get("input_dtypes")
    values = tp.get("input_values")
    sig: list[tuple[tuple[int, ...], np.dtype]] = []
    if shapes is not None:
        if not dtypes:
            dtypes = [np.float64 if dp else np.float32] * len(shapes)
        for shp, dt in zip(shapes, dtypes):
            shp_t = tuple(shp) if isinstance(shp, (list, tuple)) else (shp,)
            conc = tuple(int(binding.get(d, 2)) if isinstance(d, str) else int(d) for d in shp_t)
            dt = np.dtype(dt)
            if dp and np.issubdtype(dt, np.floating):
                dt = np.dtype(np.float64)
            sig.append((conc, dt))
    elif values is not None:
        for v in given_values(tp):
            sig.append((tuple(v.shape), v.dtype))
    return sig


def given_values(tp: dict[str, Any]) -> list[np.ndarray]:
    """`input_values` coerced the way the project's test runner coerces them."""
    dp = tp["_dp"]
    out = []
    for val in tp.get("input_values") or []:
        arr = np.asarray(val)
        dt = arr.dtype
        if not dp:
            if dt == np.float64:
                dt = np.dtype(np.float32)
            elif dt == np.int64:
                dt = np.dtype(np.int32)
        elif np.issubdtype(dt, np.floating):
            dt = np.dtype(np.float64)
        out.append(np.asarray(val, dtype=dt))
    return out


def export_kwargs(tp: dict[str, Any]) -> dict[str, Any]:
    return dict(
        input_params=tp.get("input_params", {}) or {},
        model_name=tp.get("testcase", "m"),
        opset=tp.get("opset_version", 23),
        enable_double_precision=tp["_dp"],
        inputs_as_nchw=tp.get("inputs_as_nchw"),
        outputs_as_nchw=tp.get("outputs_as_nchw"),
        input_names=tp.get("input_names"),
        output_names=tp.get("output_names"),
        normalization_mode=tp.get("normalization_mode", "auto"),
    )


def export(tp: dict[str, Any], fn: Any | None = None, **overrides: Any) -> Any:
    from jax2onnx.user_interface import to_onnx

    kw = export_kwargs(tp)
    specs = overrides.pop("inputs", None)
    kw.update(overrides)
    if fn is None:
        fn = instantiate(tp)
    return to_onnx(fn, to_onnx_specs(tp) if specs is None else specs, **kw)


RANDOM_OPS = {
    "RandomUniform",
    "RandomUniformLike",
    "RandomNormal",
    "RandomNormalLike",
    "Multinomial",
    "Bernoulli",
}


def randomness(model: Any) -> str:
    """'random' (Random* node present), 'maybe' (Dropout whose training flag is not a
    static False: decided at run time by executing twice), or 'no'."""
    import onnx
    from onnx import numpy_helper

    from vlib.modelwalk import iter_all_graphs, iter_all_nodes

    consts: dict[str, Any] = {}
    for _, g in iter_all_graphs(model):
        for t in g.initializer:
            if t.data_type == onnx.TensorProto.BOOL:
                try:
                    consts[t.name] = numpy_helper.to_array(t)
                except Exception:  # noqa: BLE001
                    pass
    nodes = list(iter_all_nodes(model))
    for _, node in nodes:
        if node.op_type == "Constant":
            for a in node.attribute:
                if a.name == "value" and a.t.data_type == onnx.TensorProto.BOOL:
                    try:
                        consts[node.output[0]] = numpy_helper.to_array(a.t)
                    except Exception:  # noqa: BLE001
                        pass
    for _, node in nodes:
        if node.op_type == "Not" and node.input and node.input[0] in consts:
            consts[node.output[0]] = ~consts[node.input[0]]
    verdict = "no"
    for _, node in nodes:
        if node.op_type in RANDOM_OPS:
            return "random"
        if node.op_type == "Dropout" and len(node.input) >= 3 and node.input[2]:
            c = consts.get(node.input[2])
            if c is None or bool(c.any()):
                verdict = "maybe"
    return verdict


def model_is_random(model: Any) -> bool:
    return randomness(model) == "random"


def numeric_ok(tp: dict[str, Any]) -> bool:
    return not tp.get("skip_numeric_validation", False)


def eval_jax(fn: Any, xs: Sequence[np.ndarray], params: dict[str, Any] | None, dp: bool) -> list[np.ndarray]:
    """Eager JAX evaluation, outputs flattened to numpy leaves."""
    import jax
    import jax.numpy as jnp

    with x64(dp):
        args = [jnp.asarray(x) for x in xs]
        kw = {}
        for k, v in (params or {}).items():
            kw[k] = jnp.asarray(v) if isinstance(v, (np.ndarray, list, tuple)) else v
        res = fn(*args, **kw)
        res = jax.device_get(res)
        leaves = jax.tree_util.tree_leaves(res)
        return [np.asarray(l) for l in leaves]
