"""Harness-side interposition on the optimizer pipeline (DESIGN 2.6).

No file of /repo is edited: module attributes are wrapped from the check process
and restored in `finally`.
"""

from __future__ import annotations

import contextlib
from dataclasses import dataclass, field
from typing import Any, Callable, Iterator


class InjectedFault(RuntimeError):
    """Raised by the harness inside the optimizer pipeline."""


@dataclass
class PassEvent:
    index: int
    name: str
    scope: str  # "top" | "function:<name>"
    before: bytes | None
    after: bytes | None

    @property
    def changed(self) -> bool:
        return self.before is not None and self.after is not None and self.before != self.after


@dataclass
class Monitor:
    events: list[PassEvent] = field(default_factory=list)
    optimize_calls: int = 0
    faults_raised: int = 0
    passes_seen: list[str] = field(default_factory=list)
    degraded: bool = False  # pass table not found: whole-optimizer granularity only


def _ser(model: Any) -> bytes | None:
    import onnx_ir as ir

    try:
        return ir.to_proto(model).SerializeToString()
    except Exception:  # noqa: BLE001
        return None


@contextlib.contextmanager
def pass_monitor(
    *,
    snapshot: bool = True,
    fault: tuple[int, str] | None = None,  # (top-level pass index, "before" | "after")
    fault_scope: str = "top",
    skip_optimizer: bool = False,
) -> Iterator[Monitor]:
    from jax2onnx.converter import conversion_api as capi
    from jax2onnx.converter import ir_optimizations as iro

    mon = Monitor()
    state: dict[str, Any] = {"model": None, "last": None}
    orig_opt_iro = iro.optimize_graph
    orig_opt_capi = capi.optimize_graph
    orig_top = getattr(iro, "_run_top_level_optimizer_pass", None)
    orig_fn = getattr(iro, "_run_function_optimizer_pass", None)
    passes = getattr(iro, "_OPTIMIZER_PASSES", None)
    index_of = {id(p): i for i, p in enumerate(passes)} if passes is not None else {}
    if orig_top is None or passes is None:
        mon.degraded = True

    def wrapped_optimize(model: Any) -> Any:
        mon.optimize_calls += 1
        if skip_optimizer:
            return model
        state["model"] = model
        state["last"] = _ser(model) if snapshot else None
        if mon.degraded:
            before = state["last"]
            out = orig_opt_iro(model)
            mon.events.append(PassEvent(-1, "optimize_graph", "top", before, _ser(model) if snapshot else None))
            return out
        return orig_opt_iro(model)

    def wrapped_top(opt_pass: Any, model: Any) -> None:
        k = index_of.get(id(opt_pass), -1)
        mon.passes_seen.append(opt_pass.name)
        if fault is not None and fault_scope == "top" and fault[0] == k and fault[1] == "before":
            mon.faults_raised += 1
            raise InjectedFault(f"injected before pass {k} ({opt_pass.name})")
        before = state["last"]
        orig_top(opt_pass, model)
        after = _ser(model) if snapshot else None
        state["last"] = after
        mon.events.append(PassEvent(k, opt_pass.name, "top", before, after))
        if fault is not None and fault_scope == "top" and fault[0] == k and fault[1] == "after":
            mon.faults_raised += 1
            raise InjectedFault(f"injected after pass {k} ({opt_pass.name})")

    def wrapped_fn(opt_pass: Any, graph: Any) -> None:
        k = index_of.get(id(opt_pass), -1)
        if fault is not None and fault_scope == "function" and fault[0] == k and fault[1] == "before":
            mon.faults_raised += 1
            raise InjectedFault(f"injected before function-body pass {k} ({opt_pass.name})")
        before = state["last"]
        orig_fn(opt_pass, graph)
        after = _ser(state["model"]) if (snapshot and state["model"] is not None) else None
        state["last"] = after
        mon.events.append(PassEvent(k, opt_pass.name, f"function:{getattr(graph, 'name', '?')}", before, after))
        if fault is not None and fault_scope == "function" and fault[0] == k and fault[1] == "after":
            mon.faults_raised += 1
            raise InjectedFault(f"injected after function-body pass {k} ({opt_pass.name})")

    iro.optimize_graph = wrapped_optimize
    capi.optimize_graph = wrapped_optimize
    if not mon.degraded:
        iro._run_top_level_optimizer_pass = wrapped_top
        if orig_fn is not None:
            iro._run_function_optimizer_pass = wrapped_fn
    try:
        yield mon
    finally:
        iro.optimize_graph = orig_opt_iro
        capi.optimize_graph = orig_opt_capi
        if orig_top is not None:
            iro._run_top_level_optimizer_pass = orig_top
        if orig_fn is not None:
            iro._run_function_optimizer_pass = orig_fn


def pass_names() -> list[str]:
    from jax2onnx.converter import ir_optimizations as iro

    return [p.name for p in getattr(iro, "_OPTIMIZER_PASSES", ())]
