"""P3: sentinel programs aimed at value-dependent lowerings (DESIGN 2.2).

Every sentinel carries explicit, labelled feeds (its whole interesting domain on a
small grid), so the path is exercised on every run regardless of the seed.
"""

from __future__ import annotations

import itertools
from typing import Any

import numpy as np

from vlib import programs

F32, I32, I8, U8, I16, U32, I64 = np.float32, np.int32, np.int8, np.uint8, np.int16, np.uint32, np.int64


def _grid_int(lo: int, hi: int, dt=I32, nonzero_y: bool = True) -> tuple[np.ndarray, np.ndarray]:
    xs, ys = [], []
    for x, y in itertools.product(range(lo, hi + 1), range(lo, hi + 1)):
        if nonzero_y and y == 0:
            continue
        xs.append(x)
        ys.append(y)
    return np.array(xs, dt), np.array(ys, dt)


def _table() -> dict[str, dict[str, Any]]:
    import jax
    import jax.numpy as jnp
    from jax import lax

    T: dict[str, dict[str, Any]] = {}

    def add(name, fn, feeds, dp=False):
        """feeds: dict label -> list of arrays"""
        T[name] = {"fn": fn, "feeds": feeds, "dp": dp}

    gx, gy = _grid_int(-7, 7)
    ux, uy = np.array([0, 1, 7, 200, 255, 13], U8), np.array([1, 2, 3, 7, 255, 5], U8)
    fx = np.array([-7.5, -7.0, -3.5, -0.5, -0.0, 0.0, 0.5, 2.5, 3.0, 6.5, 7.25, -7.25], F32)
    fxx, fyy = np.meshgrid(fx, np.array([-2.5, -2.0, -0.5, 0.5, 2.0, 3.0], F32))
    fxx, fyy = fxx.reshape(-1).astype(F32), fyy.reshape(-1).astype(F32)
    # ---- integer / float division family ------------------------------------
    for nm, f in {
        "floor_divide": lambda a, b: jnp.floor_divide(a, b),
        "floordiv_operator": lambda a, b: a // b,
        "remainder": lambda a, b: jnp.remainder(a, b),
        "mod_operator": lambda a, b: a % b,
        "mod": lambda a, b: jnp.mod(a, b),
        "fmod": lambda a, b: jnp.fmod(a, b),
        "lax_div": lambda a, b: lax.div(a, b),
        "lax_rem": lambda a, b: lax.rem(a, b),
        "divmod": lambda a, b: jnp.divmod(a, b),
        "true_divide": lambda a, b: jnp.true_divide(a, b),
    }.items():
        add(f"int_{nm}", f, {"int32_sign_grid": [gx, gy], "uint8": [ux, uy], "int8_edges": [np.array([-128, -128, 127, -127, 100], I8), np.array([1, 2, -1, 3, -7], I8)]})
        add(f"float_{nm}", f, {"float_sign_grid": [fxx, fyy]})
    # ---- rounding family -------------------------------------------------------
    hx = np.array([-3.5, -2.5, -1.5, -0.5, -0.0, 0.0, 0.5, 1.5, 2.5, 3.5, 0.49999997, -0.49999997, 8388609.0, 2.4999998, 1e-8, -2.0, 7.0], F32)
    for nm, f in {
        "lax_round_away": lambda x: lax.round(x),
        "lax_round_even": lambda x: lax.round(x, lax.RoundingMethod.TO_NEAREST_EVEN),
        "jnp_round": lambda x: jnp.round(x),
        "jnp_round_decimals1": lambda x: jnp.round(x, 1),
        "jnp_rint": lambda x: jnp.rint(x),
        "jnp_trunc": lambda x: jnp.trunc(x),
        "jnp_floor": lambda x: jnp.floor(x),
        "jnp_ceil": lambda x: jnp.ceil(x),
        "jnp_sign": lambda x: jnp.sign(x),
        "cast_to_int32": lambda x: x.astype(jnp.int32),
        "cast_to_int8_in_range": lambda x: jnp.clip(x, -100, 100).astype(jnp.int8),
        "cast_to_uint8_of_abs": lambda x: jnp.abs(jnp.clip(x, -100, 100)).astype(jnp.uint8),
        "cast_to_bool": lambda x: x.astype(jnp.bool_),
        "floor_to_int": lambda x: jnp.floor(x).astype(jnp.int32),
    }.items():
        add(nm, f, {"half_integers_and_zeros": [hx]})
    # ---- indexing at and past the bounds ------------------------------------------
    tab = np.arange(20, dtype=F32).reshape(5, 4) / 3.0
    idx_in = np.array([0, 1, 4, 3], I32)
    idx_neg = np.array([-1, -5, -2, 0], I32)
    idx_oob = np.array([5, 7, -6, 100], I32)
    for nm, f in {
        "take_axis0": lambda t, i: jnp.take(t, i, axis=0),
        "take_clip": lambda t, i: jnp.take(t, i, axis=0, mode="clip"),
        "take_wrap": lambda t, i: jnp.take(t, i, axis=0, mode="wrap"),
        "getitem_rows": lambda t, i: t[i],
        "getitem_scalar_row": lambda t, i: t[i[0]] + t[i[1], 1],
        "take_along_axis": lambda t, i: jnp.take_along_axis(t, jnp.clip(i, -5, 4)[:, None][:4] * jnp.ones((1, 4), jnp.int32), axis=0),
        "one_hot": lambda t, i: jax.nn.one_hot(i, 5) @ t,
        "dynamic_slice_rows": lambda t, i: lax.dynamic_slice(t, (i[0], 0), (2, 4)),
        "dynamic_slice_in_dim": lambda t, i: lax.dynamic_slice_in_dim(t, i[1], 3, axis=0),
        "dynamic_update_slice": lambda t, i: lax.dynamic_update_slice(t, jnp.ones((2, 2), t.dtype), (i[0], i[1])),
        "dynamic_index_in_dim": lambda t, i: lax.dynamic_index_in_dim(t, i[2], axis=0, keepdims=False),
        "scatter_add_rows": lambda t, i: t.at[i].add(1.0),
        "scatter_set_rows": lambda t, i: t.at[i[:2]].set(-1.0),
    }.items():
        add(f"index_{nm}", f, {"in_range": [tab, idx_in], "negative": [tab, idx_neg], "out_of_range": [tab, idx_oob]})
    # ---- integer arithmetic edges -------------------------------------------------
    ie = np.array([np.iinfo(I32).min, np.iinfo(I32).min + 1, -17, -1, 0, 1, 17, np.iinfo(I32).max - 1, np.iinfo(I32).max], I32)
    sh = np.array([0, 1, 2, 5, 31, 3, 4, 1, 0], I32)
    for nm, f in {
        "abs": lambda a, s: jnp.abs(a),
        "neg": lambda a, s: -a,
        "add_wrap": lambda a, s: a + a,
        "mul_wrap": lambda a, s: a * 3,
        "right_shift": lambda a, s: jnp.right_shift(a, s),
        "left_shift": lambda a, s: jnp.left_shift(a, jnp.minimum(s, 30)),
        "lax_shift_right_logical": lambda a, s: lax.shift_right_logical(a, s),
        "lax_shift_right_arithmetic": lambda a, s: lax.shift_right_arithmetic(a, s),
        "bitwise_and_or_xor": lambda a, s: (a & s) | (a ^ 7),
        "bitwise_not": lambda a, s: ~a,
        "int_pow": lambda a, s: jnp.clip(a, -9, 9) ** 3,
        "sum_wrap": lambda a, s: jnp.sum(a),
        "clip_int_bounds": lambda a, s: jnp.clip(a, -5, 9),
        "sign": lambda a, s: jnp.sign(a),
        "to_float_and_back": lambda a, s: jnp.clip(a, -(2**24), 2**24).astype(jnp.float32).astype(jnp.int32),
        "compare_chain": lambda a, s: (a < s) | (a >= 17) & (a != 0),
        "where_select": lambda a, s: jnp.where(a > 0, a, s),
        "maximum_minimum": lambda a, s: jnp.maximum(a, s) - jnp.minimum(a, s),
    }.items():
        add(f"intedge_{nm}", f, {"int32_extremes": [ie, sh]})
    u = np.array([0, 1, 127, 128, 200, 255], U8)
    add("uint8_wrap", lambda a: (a + jnp.uint8(100), a * jnp.uint8(3), a - jnp.uint8(1), jnp.right_shift(a, jnp.uint8(1))), {"uint8_all_regions": [u]})
    # ---- activations at large and tiny magnitudes ----------------------------------
    mag = np.array([-200.0, -90.0, -88.5, -20.0, -16.0, -1.0, -1e-4, -1e-8, 0.0, 1e-8, 1e-4, 1.0, 16.0, 20.0, 88.5, 90.0, 200.0], F32)
    for nm, f in {
        "log_sigmoid": jax.nn.log_sigmoid, "softplus": jax.nn.softplus, "sigmoid": jax.nn.sigmoid, "silu": jax.nn.silu, "gelu": jax.nn.gelu,
        "gelu_exact": lambda x: jax.nn.gelu(x, approximate=False), "elu": jax.nn.elu, "selu": jax.nn.selu, "celu": jax.nn.celu, "softsign": jax.nn.soft_sign,
        "tanh": jnp.tanh, "expm1": jnp.expm1, "log1p_abs": lambda x: jnp.log1p(jnp.abs(x)), "logaddexp": lambda x: jnp.logaddexp(x, -x * 0.5),
        "logsumexp": lambda x: jax.nn.logsumexp(jnp.stack([x, x * 0.5, -x]), axis=0), "softmax_large": lambda x: jax.nn.softmax(x.reshape(1, -1), axis=-1),
        "log_softmax_large": lambda x: jax.nn.log_softmax(x.reshape(1, -1), axis=-1), "hard_tanh": jax.nn.hard_tanh, "relu6": jax.nn.relu6,
        "hard_sigmoid": jax.nn.hard_sigmoid, "hard_swish": jax.nn.hard_swish, "mish": jax.nn.mish, "squareplus": jax.nn.squareplus, "erf": jax.lax.erf,
        "sinh": lambda x: jnp.sinh(jnp.clip(x, -80, 80)), "cosh": lambda x: jnp.cosh(jnp.clip(x, -80, 80)), "exp2": lambda x: jnp.exp2(jnp.clip(x, -100, 100)),
        "rsqrt_abs": lambda x: lax.rsqrt(jnp.abs(x) + 1e-3), "reciprocal": lambda x: 1.0 / (x + 0.25), "atan": jnp.arctan, "asinh": jnp.arcsinh,
        "log_abs": lambda x: jnp.log(jnp.abs(x) + 1e-12), "sqrt_abs": lambda x: jnp.sqrt(jnp.abs(x)), "cbrt": jnp.cbrt, "square": jnp.square,
    }.items():
        add(f"act_{nm}", f, {"large_and_tiny_magnitudes": [mag]})
    # ---- ordering with ties and signed zeros ---------------------------------------
    ties = np.array([[1.0, 3.0, 3.0, -0.0, 0.0, 3.0], [0.0, -0.0, 0.0, -0.0, 2.0, 2.0], [5.0, 5.0, 5.0, 5.0, 5.0, 5.0]], F32)
    for nm, f in {
        "argmax": lambda x: jnp.argmax(x, axis=1), "argmin": lambda x: jnp.argmin(x, axis=1), "sort": lambda x: jnp.sort(x, axis=1), "argsort": lambda x: jnp.argsort(x, axis=1),
        "top_k_values": lambda x: lax.top_k(x, 3)[0], "top_k_indices": lambda x: lax.top_k(x, 3)[1], "max_min": lambda x: (jnp.max(x, axis=1), jnp.min(x, axis=1)),
        "maximum_signed_zero": lambda x: jnp.maximum(x, -x), "cummax": lambda x: lax.cummax(x, axis=1), "unique_counts_via_sort": lambda x: jnp.diff(jnp.sort(x, axis=1), axis=1) == 0,
        "searchsorted": lambda x: jnp.searchsorted(jnp.array([0.0, 2.0, 3.0, 5.0], jnp.float32), x[0]), "median": lambda x: jnp.median(x, axis=1),
    }.items():
        add(f"order_{nm}", f, {"ties_and_signed_zeros": [ties]})
    # ---- cumulative / padding / misc ------------------------------------------------
    c = (np.arange(12, dtype=F32).reshape(3, 4) - 5.0) / 2.0
    for nm, f in {
        "cumsum_axis0": lambda x: jnp.cumsum(x, axis=0), "cumsum_reverse": lambda x: lax.cumsum(x, axis=1, reverse=True), "cumprod_axis1": lambda x: jnp.cumprod(x, axis=1),
        "cummin": lambda x: lax.cummin(x, axis=1), "cumlogsumexp": lambda x: lax.cumlogsumexp(x, axis=1),
        "pad_constant": lambda x: jnp.pad(x, ((1, 2), (0, 1)), constant_values=-1.5), "pad_edge": lambda x: jnp.pad(x, ((1, 1), (2, 0)), mode="edge"),
        "pad_reflect": lambda x: jnp.pad(x, ((1, 1), (1, 2)), mode="reflect"), "pad_wrap": lambda x: jnp.pad(x, ((0, 2), (1, 0)), mode="wrap"),
        "roll": lambda x: jnp.roll(x, (1, -2), axis=(0, 1)), "flip": lambda x: jnp.flip(x, axis=1), "tril_triu": lambda x: jnp.tril(x) - jnp.triu(x, 1),
        "diff": lambda x: jnp.diff(x, axis=1), "var_std": lambda x: (jnp.var(x, axis=0), jnp.std(x, axis=1, ddof=1)), "prod": lambda x: jnp.prod(x, axis=1),
        "nanmax_free": lambda x: jnp.max(jnp.where(x > 0, x, -jnp.inf), axis=1, initial=-1.0), "clip_reversed_bounds": lambda x: jnp.clip(x, 1.0, -1.0),
        "lax_clamp": lambda x: lax.clamp(-1.0, x, 1.5), "select_n": lambda x: lax.select_n((x > 0).astype(jnp.int32), x * 2, x - 1), "where_3": lambda x: jnp.where(x > 1, 1.0, jnp.where(x < -1, -1.0, x)),
        "power_float": lambda x: jnp.power(jnp.abs(x) + 0.5, x), "integer_pow_neg": lambda x: lax.integer_pow(x + 0.25, -2), "sqrt_of_square": lambda x: jnp.sqrt(x * x),
        "linspace_arange": lambda x: x[0] + jnp.linspace(-1.0, 1.0, 4) + jnp.arange(4) * 0.5, "einsum_trace": lambda x: jnp.einsum("ij,kj->ik", x, x), "mean_keepdims": lambda x: x - x.mean(axis=1, keepdims=True),
        "reshape_transpose": lambda x: jnp.transpose(x.reshape(2, 3, 2), (2, 0, 1)).reshape(4, 3), "concatenate_stack": lambda x: jnp.concatenate([jnp.stack([x, -x], 0).reshape(6, 4), x], 0),
        "squeeze_expand": lambda x: jnp.expand_dims(x[:, :1], 0).squeeze(2), "tile_repeat": lambda x: jnp.repeat(jnp.tile(x, (1, 2)), 2, axis=0), "split_sum": lambda x: sum(jnp.split(x, 2, axis=1)),
        "atan2_signed_zero": lambda x: jnp.arctan2(x * 0.0, x), "copysign_signed_zero": lambda x: jnp.copysign(jnp.abs(x) + 1, x * 0.0 - 0.0), "nextafter_free_sign": lambda x: jnp.signbit(x * 0.0 - 0.0),
        "isfinite_isnan": lambda x: jnp.isfinite(x) & ~jnp.isnan(x), "logical_ops": lambda x: jnp.logical_xor(x > 0, x > 1) | jnp.logical_not(x < -1),
        "bool_reductions": lambda x: (jnp.any(x > 1.5, axis=1), jnp.all(x > -3, axis=0)), "count_nonzero": lambda x: jnp.count_nonzero(x > 0, axis=1),
        "int_mean_truncation": lambda x: jnp.mean(jnp.floor(x).astype(jnp.int32), axis=1), "convert_int_sum_dtype": lambda x: jnp.sum(jnp.floor(x).astype(jnp.int32), dtype=jnp.float32),
    }.items():
        add(f"misc_{nm}", f, {"grid": [c]})
    # ---- axis sweeps on rank-3 / rank-4 inputs with distinct extents ----------------------------
    x3 = (np.arange(24, dtype=F32).reshape(2, 3, 4) * 7 % 11 - 5.0) / 3.0
    x4 = (np.arange(120, dtype=F32).reshape(2, 3, 4, 5) * 13 % 17 - 8.0) / 5.0
    axis_ops = {
        "cumsum": lambda x, a: jnp.cumsum(x, axis=a), "cummax": lambda x, a: lax.cummax(x, axis=a), "cummin": lambda x, a: lax.cummin(x, axis=a),
        "cummax_reverse": lambda x, a: lax.cummax(x, axis=a, reverse=True), "cumsum_reverse": lambda x, a: lax.cumsum(x, axis=a, reverse=True),
        "cumlogsumexp": lambda x, a: lax.cumlogsumexp(x, axis=a), "sort": lambda x, a: jnp.sort(x, axis=a), "argsort": lambda x, a: jnp.argsort(x, axis=a),
        "argmax": lambda x, a: jnp.argmax(x, axis=a), "argmin_keepdims": lambda x, a: jnp.argmin(x, axis=a, keepdims=True), "softmax": lambda x, a: jax.nn.softmax(x, axis=a),
        "log_softmax": lambda x, a: jax.nn.log_softmax(x, axis=a), "logsumexp": lambda x, a: jax.nn.logsumexp(x, axis=a), "flip": lambda x, a: jnp.flip(x, axis=a),
        "roll": lambda x, a: jnp.roll(x, 1, axis=a), "sum_keepdims": lambda x, a: jnp.sum(x, axis=a, keepdims=True), "max": lambda x, a: jnp.max(x, axis=a),
        "mean_var": lambda x, a: jnp.mean(x, axis=a) + jnp.var(x, axis=a), "prod": lambda x, a: jnp.prod(x, axis=a), "any_all": lambda x, a: jnp.any(x > 0, axis=a) ^ jnp.all(x > -1, axis=a),
        "take_idx": lambda x, a: jnp.take(x, jnp.array([1, 0]), axis=a), "concat": lambda x, a: jnp.concatenate([x, -x], axis=a), "stack": lambda x, a: jnp.stack([x, -x], axis=a),
        "expand_squeeze": lambda x, a: jnp.squeeze(jnp.expand_dims(x, a) * 2.0, axis=a), "split": lambda x, a: jnp.split(x, [1], axis=a)[1], "diff": lambda x, a: jnp.diff(x, axis=a),
        "moveaxis_last": lambda x, a: jnp.moveaxis(x, a, -1), "standardize": lambda x, a: jax.nn.standardize(x, axis=a), "median": lambda x, a: jnp.median(x, axis=a),
        "repeat": lambda x, a: jnp.repeat(x, 2, axis=a), "pad_axis": lambda x, a: jnp.pad(x, [(1, 0) if k == a % x.ndim else (0, 0) for k in range(x.ndim)]), "norm": lambda x, a: jnp.linalg.norm(x, axis=a),
        "count_nonzero": lambda x, a: jnp.count_nonzero(x > 0, axis=a), "ptp_free": lambda x, a: jnp.max(x, axis=a) - jnp.min(x, axis=a), "top_k_moved": lambda x, a: lax.top_k(jnp.moveaxis(x, a, -1), 2)[0],
        "top_k_axis_values": lambda x, a: jnp.tanh(lax.top_k(x, 2, axis=a)[0]) + 1.0, "top_k_axis_indices": lambda x, a: lax.top_k(x, 2, axis=a)[1],
        "take_along_axis": lambda x, a: jnp.take_along_axis(x, jnp.argsort(x, axis=a), axis=a),
        "argmax_lax": lambda x, a: lax.argmax(x, a % x.ndim, jnp.int32),
        "unstack_first": lambda x, a: jnp.moveaxis(x, a, 0)[0], "swapaxes_last": lambda x, a: jnp.swapaxes(x, a, -1) * 2.0, "insert_zeros": lambda x, a: jnp.insert(x, 1, 0.0, axis=a),
        "delete_first": lambda x, a: jnp.delete(x, 0, axis=a), "tile_axis": lambda x, a: jnp.tile(x, tuple(2 if k == a % x.ndim else 1 for k in range(x.ndim))), "quantile": lambda x, a: jnp.quantile(x, 0.5, axis=a),
    }
    for nm, f in axis_ops.items():
        for a in (0, 1, 2, -1, -3):
            add(f"axis3_{nm}_ax{a}", (lambda f, a: lambda x: f(x, a))(f, a), {"rank3": [x3]})
        for a in (0, 1, 2):
            add(f"axis4_{nm}_ax{a}", (lambda f, a: lambda x: f(x, a))(f, a), {"rank4": [x4]})
    # contraction / permutation forms
    A33 = (np.arange(9, dtype=F32).reshape(3, 3) - 4.0) / 3.0
    B33 = (np.arange(9, dtype=F32).reshape(3, 3)[::-1] * 2 - 7.0) / 5.0
    A23, B24 = A33[:2], np.arange(8, dtype=F32).reshape(2, 4) / 4.0
    dn = lambda lc, rc, lb=(), rb=(): (((lc,), (rc,)), (lb, rb))  # noqa: E731
    for lc in (0, 1):
        for rc in (0, 1):
            add(f"dot_general_contract_l{lc}_r{rc}_square", (lambda lc, rc: lambda a, b: lax.dot_general(a, b, dn(lc, rc)))(lc, rc), {"square_3x3": [A33, B33]})
    add("dot_general_contract_l0_r0_nonsquare", lambda a, b: lax.dot_general(a, b, dn(0, 0)), {"2x3_2x4": [A23, B24]})
    add("dot_general_batch", lambda a, b: lax.dot_general(a, b, (((2,), (1,)), ((0,), (0,)))), {"batch": [x3, np.transpose(x3, (0, 2, 1)).copy()]})
    # operand pairs of *different* dtype: JAX promotes, the lowering has to do the same (fractional values on the float side)
    ti = np.array([-4, -2, 0, 1, 3, 5, 7], I32)
    qf = np.array([-4.5, -2.5, -2.0, -0.5, 0.5, 1.0, 2.5, 3.5, 5.25, 6.999, 7.5], F32)
    for side in ("left", "right"):
        add(f"mixed_searchsorted_int_table_float_queries_{side}", (lambda side: lambda a, v: jnp.searchsorted(a, v, side=side))(side), {"fractional": [ti, qf]})
        add(f"mixed_searchsorted_float_table_int_queries_{side}", (lambda side: lambda a, v: jnp.searchsorted(a, v, side=side))(side), {"ints": [np.array([-3.5, -1.0, 0.5, 2.0, 2.5, 6.0], F32), np.array([-4, -1, 0, 2, 3, 6, 9], I32)]})
    mi = np.array([-3, -1, 0, 1, 2, 5], I32)
    mf = np.array([-2.5, -1.0, 0.5, 0.999, 2.5, 4.75], F32)
    for nm, f in {
        "add": lambda i, x: i + x, "subtract": lambda i, x: x - i, "multiply": lambda i, x: i * x, "divide": lambda i, x: i / (x + 10.0), "maximum": lambda i, x: jnp.maximum(i, x), "minimum": lambda i, x: jnp.minimum(x, i),
        "less": lambda i, x: i < x, "greater_equal": lambda i, x: x >= i, "equal": lambda i, x: i == x, "where": lambda i, x: jnp.where(i > 0, i, x), "clip_float_bounds": lambda i, x: jnp.clip(i, -1.5, 1.5) + x * 0,
        "power": lambda i, x: jnp.abs(x) ** jnp.abs(i), "floor_divide": lambda i, x: jnp.floor_divide(x, jnp.where(i == 0, 1, i)), "mod": lambda i, x: jnp.mod(x, jnp.where(i == 0, 2, i)),
        "atan2": lambda i, x: jnp.arctan2(x, i + 0.5), "hypot": lambda i, x: jnp.hypot(i, x), "concatenate": lambda i, x: jnp.concatenate([i, x]), "stack_then_sum": lambda i, x: jnp.stack([i.astype(x.dtype), x]).sum(0),
        "dot": lambda i, x: jnp.dot(i, x), "digitize_float_in_int_bins": lambda i, x: jnp.digitize(x, jnp.sort(i)), "isclose": lambda i, x: jnp.isclose(i, x, atol=0.6),
    }.items():
        add(f"mixed_int_float_{nm}", f, {"fractional": [mi, mf]})
    add("mixed_int8_int32_add", lambda a, b: a + b, {"edges": [np.array([-128, -1, 0, 127], np.int8), np.array([-70000, 3, 128, 2**31 - 128], I32)]})
    add("mixed_uint8_int32_subtract", lambda a, b: a - b, {"edges": [np.array([0, 1, 200, 255], U8), np.array([1, -1, 300, -2**31 + 255], I32)]})
    add("mixed_bool_float_multiply", lambda m, x: m * x + (~m) * 2.0, {"mask": [np.array([True, False, True, False, True, False]), mf]})
    add("mixed_f16_f32_add", lambda h, x: h + x, {"halves": [np.array([0.1, 1.5, -2.25, 1000.0, 6e-5, 3.0], np.float16), mf]})
    # attention configurations with distinct query / key lengths, head counts and feature sizes
    def _qkv(T, S, N=2, H=4, K=None, B=2, seed=5):
        r = np.random.default_rng(seed)
        K = K or N
        return [r.standard_normal((B, T, N, H)).astype(F32) * 0.7, r.standard_normal((B, S, K, H)).astype(F32) * 0.7, r.standard_normal((B, S, K, H)).astype(F32)]

    for T_, S_ in ((3, 5), (5, 3), (1, 6), (4, 4)):
        add(f"attention_causal_T{T_}_S{S_}", lambda q, k, v: jax.nn.dot_product_attention(q, k, v, is_causal=True), {"qkv": _qkv(T_, S_)})
        add(f"attention_plain_T{T_}_S{S_}", lambda q, k, v: jax.nn.dot_product_attention(q, k, v), {"qkv": _qkv(T_, S_)})
        add(f"attention_scaled_T{T_}_S{S_}", lambda q, k, v: jax.nn.dot_product_attention(q, k, v, scale=0.37), {"qkv": _qkv(T_, S_)})
    _m = (np.arange(3 * 5).reshape(3, 5) % 3 != 1)
    add("attention_bool_mask_T3_S5", lambda q, k, v: jax.nn.dot_product_attention(q, k, v, mask=jnp.asarray(_m)[None, None]), {"qkv": _qkv(3, 5)})
    add("attention_bias_T3_S5", lambda q, k, v: jax.nn.dot_product_attention(q, k, v, bias=jnp.asarray(np.linspace(-1, 1, 15, dtype=F32).reshape(1, 1, 3, 5))), {"qkv": _qkv(3, 5)})
    add("attention_grouped_query_T3_S5", lambda q, k, v: jax.nn.dot_product_attention(q, k, v), {"qkv": _qkv(3, 5, N=4, K=2)})
    add("attention_causal_and_mask_T4_S6", lambda q, k, v: jax.nn.dot_product_attention(q, k, v, is_causal=True, mask=jnp.asarray((np.arange(24).reshape(4, 6) % 5 != 2))[None, None]), {"qkv": _qkv(4, 6)})
    add("attention_seq_lengths_T3_S5", lambda q, k, v: jax.nn.dot_product_attention(q, k, v, query_seq_lengths=jnp.array([2, 3]), key_value_seq_lengths=jnp.array([4, 2])), {"qkv": _qkv(3, 5)})
    add("attention_local_window_T4_S4", lambda q, k, v: jax.nn.dot_product_attention(q, k, v, local_window_size=(1, 1)), {"qkv": _qkv(4, 4)})
    # batched contractions with the batch / contracting axes in every position (distinct extents B=2, M=5, K=3, N=7)
    import itertools as _it

    _L = np.linspace(-1.0, 1.0, 2 * 5 * 3).astype(F32).reshape(2, 5, 3)  # (B, M, K)
    _R = np.linspace(1.0, -0.5, 2 * 3 * 7).astype(F32).reshape(2, 3, 7)  # (B, K, N)
    for lp in _it.permutations(range(3)):
        for rp in ((0, 1, 2), (1, 2, 0), (2, 0, 1), (2, 1, 0)):
            la, ra = np.transpose(_L, lp).copy(), np.transpose(_R, rp).copy()
            dnb = (((lp.index(2),), (rp.index(1),)), ((lp.index(0),), (rp.index(0),)))
            add(f"dot_general_layout_l{''.join(map(str, lp))}_r{''.join(map(str, rp))}", (lambda dnb: lambda a, b: lax.dot_general(a, b, dnb))(dnb), {"batched": [la, ra]})
    add("dot_general_two_batch_axes", lambda a, b: lax.dot_general(a, b, (((3,), (2,)), ((1, 0), (1, 0)))), {"batched": [np.linspace(-1, 1, 2 * 3 * 4 * 5).astype(F32).reshape(2, 3, 4, 5), np.linspace(1, -1, 2 * 3 * 5 * 2).astype(F32).reshape(2, 3, 5, 2)]})
    add("dot_general_two_contracting_axes", lambda a, b: lax.dot_general(a, b, (((1, 2), (2, 0)), ((), ()))), {"operands": [np.linspace(-1, 1, 2 * 3 * 4).astype(F32).reshape(2, 3, 4), np.linspace(1, -1, 4 * 5 * 3).astype(F32).reshape(4, 5, 3)]})
    add("dot_general_batch_contract_first", lambda a, b: lax.dot_general(a, b, (((1,), (1,)), ((0,), (0,)))), {"batch": [x3, x3 * 0.5]})
    for eq in ("ij,kj->ik", "ji,jk->ik", "ij,ij->i", "ijk,ikl->ijl", "ijk,jil->kl", "ii->i", "ij->ji", "ijk->kji", "i,j->ij", "bij,bjk->bik"):
        shp = {"i,j->ij": [np.arange(3, dtype=F32), np.arange(4, dtype=F32)], "ii->i": [A33], "ij->ji": [A23], "ijk->kji": [x3]}
        ops2 = shp.get(eq) or ([A33, B33] if eq.count(",") and len(eq.split(",")[0]) == 2 else [x3, np.transpose(x3, (0, 2, 1)).copy()] if eq in ("ijk,ikl->ijl", "bij,bjk->bik") else [x3, np.transpose(x3, (1, 0, 2)).copy()])
        add(f"einsum_{eq.replace(',', '_').replace('->', '_to_')}", (lambda eq: lambda *o: jnp.einsum(eq, *o))(eq), {"operands": list(ops2)})
    for perm in ((0, 2, 1), (1, 0, 2), (1, 2, 0), (2, 0, 1), (2, 1, 0)):
        add(f"transpose_{''.join(map(str, perm))}", (lambda perm: lambda x: jnp.transpose(x, perm) * 2.0)(perm), {"rank3": [x3]})
    # ---- complex ----------------------------------------------------------------------
    z = (np.array([1.0, -2.0, 0.5, 0.0]) + 1j * np.array([2.0, 0.5, -1.0, 3.0])).astype(np.complex64)
    for nm, f in {
        "mul": lambda a: a * a, "conj": lambda a: jnp.conj(a), "real_imag": lambda a: (jnp.real(a), jnp.imag(a)), "abs": lambda a: jnp.abs(a),
        "add_scalar_complex": lambda a: a + (1.0 + 2.0j), "mul_scalar_complex": lambda a: a * (1.0 + 2.0j), "conj_mul": lambda a: jnp.conj(a) * a, "lax_conj_of_real": lambda a: lax.conj(jnp.real(a)),
    }.items():
        add(f"complex_{nm}", f, {"complex64": [z]})
    return T


_T: dict[str, dict[str, Any]] | None = None


def table() -> dict[str, dict[str, Any]]:
    global _T
    if _T is None:
        _T = _table()
    return _T


def cases(check: str, tier: str, seed: int) -> list[dict[str, Any]]:
    out = []
    for name in table():
        out.append({"key": f"sent:{name}", "src": "sentinel", "name": name, "cost": 0.5})
    return out


def build(case: dict[str, Any]) -> programs.Program:
    import jax

    spec = table()[case["name"]]
    labels = list(spec["feeds"])
    first = spec["feeds"][labels[0]]
    # all feeds of one sentinel must share the signature of the first (else one program per label)
    sig0 = [(tuple(np.asarray(a).shape), np.asarray(a).dtype) for a in first]
    return programs.Program(
        pid=case["key"],
        family="sentinel/" + case["name"],
        make_fn=lambda: spec["fn"],
        specs=lambda: [jax.ShapeDtypeStruct(s, dt) for s, dt in sig0],
        signature=lambda b: sig0,
        dp=spec.get("dp", False),
        given=[list(spec["feeds"][l]) for l in labels if [(tuple(np.asarray(a).shape), np.asarray(a).dtype) for a in spec["feeds"][l]] == sig0],
        given_labels=[l for l in labels if [(tuple(np.asarray(a).shape), np.asarray(a).dtype) for a in spec["feeds"][l]] == sig0],
        source="sentinel",
    )


def extra_programs(case: dict[str, Any]) -> list[programs.Program]:
    """Feeds whose signature differs from the first label get their own program (own export)."""
    import jax

    spec = table()[case["name"]]
    labels = list(spec["feeds"])
    sig0 = [(tuple(np.asarray(a).shape), np.asarray(a).dtype) for a in spec["feeds"][labels[0]]]
    out = []
    for l in labels[1:]:
        sig = [(tuple(np.asarray(a).shape), np.asarray(a).dtype) for a in spec["feeds"][l]]
        if sig == sig0:
            continue
        out.append(
            programs.Program(
                pid=f"{case['key']}[{l}]", family="sentinel/" + case["name"], make_fn=lambda: spec["fn"],
                specs=(lambda sig: lambda: [jax.ShapeDtypeStruct(s, dt) for s, dt in sig])(sig), signature=(lambda sig: lambda b: sig)(sig),
                dp=spec.get("dp", False), given=[list(spec["feeds"][l])], given_labels=[l], source="sentinel",
            )
        )
    return out
