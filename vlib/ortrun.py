"""ONNX Runtime execution helpers (single thread, graph optimisation disabled)."""

from __future__ import annotations

from typing import Any, Sequence

import numpy as np
import onnx
import onnxruntime as ort

_ORT_TYPE = {
    "tensor(float)": np.float32,
    "tensor(double)": np.float64,
    "tensor(float16)": np.float16,
    "tensor(int64)": np.int64,
    "tensor(int32)": np.int32,
    "tensor(int16)": np.int16,
    "tensor(int8)": np.int8,
    "tensor(uint64)": np.uint64,
    "tensor(uint32)": np.uint32,
    "tensor(uint16)": np.uint16,
    "tensor(uint8)": np.uint8,
    "tensor(bool)": np.bool_,
}

# messages that mean "this runtime cannot execute it", not "the model is wrong"
_ENV_MARKERS = (
    "NOT_IMPLEMENTED",
    "Could not find an implementation",
    "is not a registered function/op",
    "Unsupported model IR version",
    "is under development and support for this is limited",
    "Opset",  # "ONNX Runtime only *guarantees* support for models stamped with official released onnx opset versions"
)


class OrtEnvLimit(Exception):
    """ORT cannot execute the model for reasons unrelated to jax2onnx."""


class OrtLoadError(Exception):
    pass


class OrtRunError(Exception):
    pass


def _opts() -> ort.SessionOptions:
    so = ort.SessionOptions()
    so.intra_op_num_threads = 1
    so.inter_op_num_threads = 1
    so.graph_optimization_level = ort.GraphOptimizationLevel.ORT_DISABLE_ALL
    so.log_severity_level = 4
    return so


def is_env_limit(msg: str) -> bool:
    if "NOT_IMPLEMENTED" in msg or "Could not find an implementation" in msg:
        return True
    if "only *guarantees* support for models stamped with" in msg or "is under development" in msg:
        return True
    if "Unsupported model IR version" in msg:
        return True
    return False


def session(model: onnx.ModelProto | bytes) -> ort.InferenceSession:
    data = model if isinstance(model, (bytes, bytearray)) else model.SerializeToString()
    try:
        return ort.InferenceSession(data, sess_options=_opts(), providers=["CPUExecutionProvider"])
    except Exception as exc:  # noqa: BLE001
        msg = str(exc)
        if is_env_limit(msg):
            raise OrtEnvLimit(msg[:400]) from None
        raise OrtLoadError(msg[:800]) from None


def build_feed(sess: ort.InferenceSession, xs: Sequence[Any], params: dict[str, Any] | None = None) -> dict[str, np.ndarray]:
    """Positional feeds in graph-input order; `params` by name. Values are coerced
    to the model's declared input dtype; complex values are packed as a trailing
    real pair (what the exporter defines for complex inputs)."""
    params = params or {}
    feed: dict[str, np.ndarray] = {}
    it = iter(xs)
    for meta in sess.get_inputs():
        if meta.name in params:
            val = np.asarray(params[meta.name])
        else:
            val = np.asarray(next(it))
        tgt = _ORT_TYPE.get(meta.type)
        if np.iscomplexobj(val) and tgt is not None and np.issubdtype(tgt, np.floating):
            val = np.stack([val.real, val.imag], axis=-1)
        if tgt is not None and val.dtype != tgt:
            val = val.astype(tgt)
        feed[meta.name] = val if val.ndim == 0 else np.ascontiguousarray(val)
    return feed


def run(sess: ort.InferenceSession, feed: dict[str, np.ndarray]) -> list[np.ndarray]:
    try:
        return [np.asarray(o) for o in sess.run(None, feed)]
    except Exception as exc:  # noqa: BLE001
        msg = str(exc)
        if is_env_limit(msg):
            raise OrtEnvLimit(msg[:400]) from None
        raise OrtRunError(msg[:800]) from None


def run_model(model: onnx.ModelProto, xs: Sequence[Any], params: dict[str, Any] | None = None) -> list[np.ndarray]:
    sess = session(model)
    return run(sess, build_feed(sess, xs, params))
