"""Hostile, class-pure input draws (DESIGN 2.3)."""

from __future__ import annotations

from typing import Sequence

import numpy as np

FLOAT_CLASSES = ["benign", "uniform", "halfint", "integral", "tiny", "large", "exp_edge", "pow2"]
INT_CLASSES = ["benign", "negative", "moderate", "extreme"]
# a draw names one float class and one int class; the pairs used by the checks
DRAW_CLASSES = [
    ("benign", "benign"),
    ("uniform", "benign"),
    ("halfint", "negative"),
    ("integral", "moderate"),
    ("tiny", "benign"),
    ("large", "extreme"),
    ("exp_edge", "negative"),
    ("pow2", "moderate"),
]


def class_name(fc: str, ic: str) -> str:
    return f"{fc}+{ic}"


def _float_values(cls: str, n: int, rng: np.random.Generator, wide: bool) -> np.ndarray:
    if cls == "benign":
        return rng.standard_normal(n) * 0.25
    if cls == "uniform":
        return rng.uniform(-4.0, 4.0, n)
    if cls == "halfint":
        return rng.integers(-4, 5, n).astype(np.float64) + 0.5 * rng.choice([-1.0, 1.0], n)
    if cls == "integral":
        v = rng.integers(-6, 7, n).astype(np.float64)
        if n > 1:
            v[rng.integers(0, n)] = -0.0
        return v
    if cls == "tiny":
        return rng.choice([-1.0, 1.0], n) * 10.0 ** rng.uniform(-8, -4, n)
    if cls == "large":
        return rng.choice([-1.0, 1.0], n) * rng.uniform(20.0, 200.0, n)
    if cls == "exp_edge":
        return rng.choice([-1.0, 1.0], n) * rng.uniform(80.0, 90.0, n)
    if cls == "pow2":
        return rng.choice([-1.0, 1.0], n) * 2.0 ** rng.integers(-6, 7, n).astype(np.float64)
    if cls == "f64only":
        base = np.array([1 + 2.0**-30, 1 - 2.0**-31, 1e-40, -1e-40, -(1 + 2.0**-29), 0.7, 3 + 2.0**-40, 0.1])
        return rng.choice(base, n) * rng.choice([1.0, 1.0, 0.5, 2.0], n)
    raise ValueError(cls)


def _int_values(cls: str, n: int, dtype: np.dtype, rng: np.random.Generator) -> np.ndarray:
    info = np.iinfo(dtype)
    if cls == "benign":
        return rng.integers(0, 5, n)
    if cls == "negative":
        if info.min == 0:
            return rng.integers(0, 5, n)
        return rng.integers(-5, 0, n)
    if cls == "moderate":
        return rng.integers(5, min(300, info.max) + 1, n)
    if cls == "extreme":
        pool = [info.min, info.min + 1, 0, 1, info.max - 1, info.max]
        if info.min < 0:
            pool.append(-1)
        return rng.choice(np.array(pool, dtype=object), n)
    raise ValueError(cls)


def draw(
    sig: Sequence[tuple[tuple[int, ...], np.dtype]],
    fcls: str,
    icls: str,
    rng: np.random.Generator,
) -> list[np.ndarray]:
    out: list[np.ndarray] = []
    for shape, dt in sig:
        dt = np.dtype(dt)
        n = int(np.prod(shape)) if len(shape) else 1
        if dt == np.bool_:
            mode = rng.integers(0, 4)
            v = rng.random(n) > 0.5 if mode < 2 else (np.ones(n, bool) if mode == 2 else np.zeros(n, bool))
            arr = np.asarray(v, dtype=bool)
        elif np.issubdtype(dt, np.integer):
            arr = np.array(_int_values(icls, n, dt, rng).tolist(), dtype=dt)
        elif np.issubdtype(dt, np.complexfloating):
            re = _float_values(fcls, n, rng, False)
            im = _float_values(fcls, n, rng, False)
            arr = (re + 1j * im).astype(dt)
        else:
            arr = _float_values(fcls, n, rng, dt == np.float64).astype(dt)
        out.append(arr.reshape(shape))
    return out


def perturb(xs: Sequence[np.ndarray], rng: np.random.Generator, delta: float = 2.0**-20) -> list[np.ndarray]:
    """Relative perturbation of all float inputs by ~delta (ints/bools untouched)."""
    out = []
    for x in xs:
        x = np.asarray(x)
        if np.issubdtype(x.dtype, np.floating) or np.issubdtype(x.dtype, np.complexfloating):
            r = rng.uniform(0.5, 1.0, x.shape) * rng.choice([-1.0, 1.0], x.shape)
            # never below one ulp of the dtype, otherwise the perturbation vanishes in rounding
            d = max(delta, 2.0 * float(np.finfo(x.real.dtype).eps))
            out.append((x * (1.0 + d * r)).astype(x.dtype))
        else:
            out.append(x)
    return out
