"""P2: seeded generator of well-typed compositions of supported primitives.

A program is a JSON-able recipe: inputs [(shape, dtype)], steps [(op, operand ids,
params)], outputs [value ids].  `interpret` rebuilds exactly the same callable.
A disagreeing program is minimised to the first diverging intermediate: prefixes of
the recipe are exported with that intermediate as the output; the mechanism key of the
violation is that step's operator.
"""

from __future__ import annotations

from typing import Any

import numpy as np

from vlib import programs

F32, I32 = "float32", "int32"


# ----------------------------------------------------------------------------
# vocabulary: name -> (arity, applicable(avals, rng) -> params | None, out_aval(avals, params))
# avals are (shape tuple, dtype str)
# ----------------------------------------------------------------------------

UNARY_F = ["tanh", "sin", "cos", "abs", "neg", "relu", "sigmoid", "square", "floor", "ceil", "jnp_round", "exp_clipped", "log1p_abs", "sqrt_abs", "gelu", "softplus_small", "sign", "elu", "reciprocal_safe", "erf", "silu"]
BINARY_F = ["add", "sub", "mul", "div_safe", "maximum", "minimum", "where_gt", "pow_abs", "hypot", "logaddexp_small"]
UNARY_I = ["ineg", "iabs", "imul3", "iadd7", "ifloordiv3", "imod5", "ifloordiv_neg3", "imod_neg4", "isquare_clipped", "ibitand7", "ishiftl1"]


def _bshape(a: tuple[int, ...], b: tuple[int, ...]) -> tuple[int, ...] | None:
    try:
        return tuple(np.broadcast_shapes(a, b))
    except ValueError:
        return None


def _candidates(avals: list[tuple[tuple[int, ...], str]], rng: np.random.Generator) -> tuple[str, list[int], dict[str, Any], tuple[tuple[int, ...], str]] | None:
    """Pick one applicable step."""
    n = len(avals)
    fl = [i for i, (s, d) in enumerate(avals) if d == F32]
    it = [i for i, (s, d) in enumerate(avals) if d == I32]
    for _ in range(30):
        kind = rng.choice(["unary", "binary", "reduce", "shape", "matmul", "cum", "cast", "int", "compare", "control", "index", "norm"], p=[0.2, 0.2, 0.1, 0.17, 0.06, 0.04, 0.04, 0.05, 0.03, 0.05, 0.03, 0.03])
        if kind == "unary" and fl:
            i = int(rng.choice(fl))
            return str(rng.choice(UNARY_F)), [i], {}, avals[i]
        if kind == "binary" and len(fl) >= 1:
            i, j = int(rng.choice(fl)), int(rng.choice(fl))
            bs = _bshape(avals[i][0], avals[j][0])
            if bs is None:
                continue
            return str(rng.choice(BINARY_F)), [i, j], {}, (bs, F32)
        if kind == "reduce" and fl:
            i = int(rng.choice(fl))
            s = avals[i][0]
            if len(s) == 0:
                continue
            ax = int(rng.integers(-len(s), len(s)))
            kd = bool(rng.random() < 0.4)
            op = str(rng.choice(["sum", "mean", "max", "min", "prod_small", "argmax", "var", "logsumexp"]))
            out = tuple(1 if k == ax % len(s) else d for k, d in enumerate(s)) if kd else tuple(d for k, d in enumerate(s) if k != ax % len(s))
            return op, [i], {"axis": ax, "keepdims": kd}, (out, I32 if op == "argmax" else F32)
        if kind == "shape" and n:
            i = int(rng.integers(n))
            s, d = avals[i]
            size = int(np.prod(s)) if s else 1
            op = str(rng.choice(["reshape", "transpose", "expand_dims", "flip", "tile2", "pad1", "slice_half", "concat_self", "stack_self", "squeeze0", "broadcast_lead", "roll1", "swap_last2", "split_first"]))
            if op == "reshape":
                opts = [t for t in [(size,), (1, size), (size, 1)] + [(a, size // a) for a in (2, 3, 4, 6) if size % a == 0] if t != s]
                if not opts:
                    continue
                t = tuple(int(v) for v in opts[int(rng.integers(len(opts)))])
                return op, [i], {"shape": list(t)}, (t, d)
            if op == "transpose" and len(s) >= 2:
                perm = [int(v) for v in rng.permutation(len(s))]
                return op, [i], {"perm": perm}, (tuple(s[p] for p in perm), d)
            if op == "expand_dims":
                ax = int(rng.integers(0, len(s) + 1))
                return op, [i], {"axis": ax}, (s[:ax] + (1,) + s[ax:], d)
            if op == "flip" and s:
                ax = int(rng.integers(len(s)))
                return op, [i], {"axis": ax}, (s, d)
            if op == "tile2" and s and size <= 48:
                return op, [i], {}, ((s[0] * 2,) + s[1:], d)
            if op == "pad1" and s and size <= 64:
                return op, [i], {}, (tuple(v + 2 for v in s), d)
            if op == "slice_half" and s and s[0] >= 2:
                return op, [i], {}, ((s[0] // 2,) + s[1:], d)
            if op == "concat_self" and s and size <= 48:
                ax = int(rng.integers(len(s)))
                return op, [i], {"axis": ax}, (tuple(v * 2 if k == ax else v for k, v in enumerate(s)), d)
            if op == "stack_self" and len(s) <= 3 and size <= 48:
                return op, [i], {}, ((2,) + s, d)
            if op == "squeeze0" and s and s[0] == 1:
                return op, [i], {}, (s[1:], d)
            if op == "broadcast_lead" and len(s) <= 3 and size <= 32:
                return op, [i], {}, ((2,) + s, d)
            if op == "roll1" and s:
                return op, [i], {}, (s, d)
            if op == "swap_last2" and len(s) >= 2:
                return op, [i], {}, (s[:-2] + (s[-1], s[-2]), d)
            if op == "split_first" and s and s[0] % 2 == 0 and s[0] >= 2:
                return op, [i], {}, ((s[0] // 2,) + s[1:], d)
            continue
        if kind == "matmul" and fl:
            i = int(rng.choice(fl))
            s = avals[i][0]
            if len(s) < 1 or len(s) > 3:
                continue
            k = s[-1]
            m = int(rng.choice([2, 3, 5]))
            return "matmul_const", [i], {"k": k, "m": m, "seed": int(rng.integers(1000))}, (s[:-1] + (m,), F32)
        if kind == "cum" and fl:
            i = int(rng.choice(fl))
            s = avals[i][0]
            if not s:
                continue
            ax = int(rng.integers(len(s)))
            return str(rng.choice(["cumsum", "cummax"])), [i], {"axis": ax}, avals[i]
        if kind == "cast":
            if fl and rng.random() < 0.6:
                i = int(rng.choice(fl))
                return "to_int_floor", [i], {}, (avals[i][0], I32)
            if it:
                i = int(rng.choice(it))
                return "to_float", [i], {}, (avals[i][0], F32)
            continue
        if kind == "int" and it:
            i = int(rng.choice(it))
            return str(rng.choice(UNARY_I)), [i], {}, avals[i]
        if kind == "compare" and len(fl) >= 1:
            i, j = int(rng.choice(fl)), int(rng.choice(fl))
            bs = _bshape(avals[i][0], avals[j][0])
            if bs is None:
                continue
            return str(rng.choice(["count_gt", "select_lt"])), [i, j], {}, (bs, I32 if False else F32)
        if kind == "control" and fl:
            i = int(rng.choice(fl))
            op = str(rng.choice(["cond_sum_pos", "fori3", "scan_rows", "while_bounded"]))
            s = avals[i][0]
            if op == "scan_rows":
                if len(s) < 2:
                    continue
                return op, [i], {}, (s, F32)
            return op, [i], {}, avals[i]
        if kind == "index" and fl:
            i = int(rng.choice(fl))
            s = avals[i][0]
            if not s or s[0] < 2:
                continue
            op = str(rng.choice(["take_const", "gather_rows_rev", "dynamic_slice_const", "one_hot_argmax"]))
            if op == "take_const":
                return op, [i], {"idx": [int(v) for v in rng.integers(0, s[0], 3)]}, ((3,) + s[1:], F32)
            if op == "gather_rows_rev":
                return op, [i], {}, avals[i]
            if op == "dynamic_slice_const":
                return op, [i], {"start": int(rng.integers(0, s[0] - 1))}, ((1,) + s[1:], F32)
            if op == "one_hot_argmax" and len(s) == 2:
                return op, [i], {}, avals[i]
            continue
        if kind == "norm" and fl:
            i = int(rng.choice(fl))
            s = avals[i][0]
            if not s or s[-1] < 2:
                continue
            return str(rng.choice(["softmax_last", "log_softmax_last", "layernorm_last", "l2norm_last"])), [i], {}, avals[i]
    return None


def interpret(recipe: dict[str, Any], upto: int | None = None):
    """Returns a python callable f(*inputs) computing the recipe (or its prefix)."""
    import jax
    import jax.numpy as jnp
    from jax import lax

    steps = recipe["steps"] if upto is None else recipe["steps"][: upto + 1]
    n_in = len(recipe["inputs"])
    outs = recipe["outputs"] if upto is None else [n_in + upto]

    def f(*xs):
        v = list(xs)
        for op, ids, p in steps:
            a = v[ids[0]]
            b = v[ids[1]] if len(ids) > 1 else None
            if op == "tanh": r = jnp.tanh(a)
            elif op == "sin": r = jnp.sin(a)
            elif op == "cos": r = jnp.cos(a)
            elif op == "abs": r = jnp.abs(a)
            elif op == "neg": r = -a
            elif op == "relu": r = jax.nn.relu(a)
            elif op == "sigmoid": r = jax.nn.sigmoid(a)
            elif op == "square": r = jnp.square(a)
            elif op == "floor": r = jnp.floor(a)
            elif op == "ceil": r = jnp.ceil(a)
            elif op == "jnp_round": r = jnp.round(a)
            elif op == "exp_clipped": r = jnp.exp(jnp.clip(a, -20.0, 20.0))
            elif op == "log1p_abs": r = jnp.log1p(jnp.abs(a))
            elif op == "sqrt_abs": r = jnp.sqrt(jnp.abs(a))
            elif op == "gelu": r = jax.nn.gelu(a)
            elif op == "softplus_small": r = jax.nn.softplus(jnp.clip(a, -30.0, 30.0))
            elif op == "sign": r = jnp.sign(a)
            elif op == "elu": r = jax.nn.elu(a)
            elif op == "reciprocal_safe": r = 1.0 / (jnp.abs(a) + 0.5)
            elif op == "erf": r = lax.erf(a)
            elif op == "silu": r = jax.nn.silu(a)
            elif op == "add": r = a + b
            elif op == "sub": r = a - b
            elif op == "mul": r = a * b
            elif op == "div_safe": r = a / (jnp.abs(b) + 0.5)
            elif op == "maximum": r = jnp.maximum(a, b)
            elif op == "minimum": r = jnp.minimum(a, b)
            elif op == "where_gt": r = jnp.where(a > b, a, b * 0.5)
            elif op == "pow_abs": r = jnp.power(jnp.abs(a) + 0.5, jnp.clip(b, -3.0, 3.0))
            elif op == "hypot": r = jnp.hypot(a, b)
            elif op == "logaddexp_small": r = jnp.logaddexp(jnp.clip(a, -30.0, 30.0), jnp.clip(b, -30.0, 30.0))
            elif op == "sum": r = jnp.sum(a, axis=p["axis"], keepdims=p["keepdims"])
            elif op == "mean": r = jnp.mean(a, axis=p["axis"], keepdims=p["keepdims"])
            elif op == "max": r = jnp.max(a, axis=p["axis"], keepdims=p["keepdims"])
            elif op == "min": r = jnp.min(a, axis=p["axis"], keepdims=p["keepdims"])
            elif op == "prod_small": r = jnp.prod(jnp.clip(a, -2.0, 2.0), axis=p["axis"], keepdims=p["keepdims"])
            elif op == "argmax": r = jnp.argmax(a, axis=p["axis"], keepdims=p["keepdims"]).astype(jnp.int32)
            elif op == "var": r = jnp.var(a, axis=p["axis"], keepdims=p["keepdims"])
            elif op == "logsumexp": r = jax.nn.logsumexp(jnp.clip(a, -30.0, 30.0), axis=p["axis"], keepdims=p["keepdims"])
            elif op == "reshape": r = jnp.reshape(a, tuple(p["shape"]))
            elif op == "transpose": r = jnp.transpose(a, tuple(p["perm"]))
            elif op == "expand_dims": r = jnp.expand_dims(a, p["axis"])
            elif op == "flip": r = jnp.flip(a, axis=p["axis"])
            elif op == "tile2": r = jnp.tile(a, (2,) + (1,) * (a.ndim - 1))
            elif op == "pad1": r = jnp.pad(a, 1)
            elif op == "slice_half": r = a[: a.shape[0] // 2]
            elif op == "concat_self": r = jnp.concatenate([a, a * 2], axis=p["axis"])
            elif op == "stack_self": r = jnp.stack([a, -a], axis=0)
            elif op == "squeeze0": r = jnp.squeeze(a, axis=0)
            elif op == "broadcast_lead": r = jnp.broadcast_to(a, (2,) + a.shape)
            elif op == "roll1": r = jnp.roll(a, 1, axis=0)
            elif op == "swap_last2": r = jnp.swapaxes(a, -1, -2)
            elif op == "split_first": r = jnp.split(a, 2, axis=0)[1]
            elif op == "matmul_const":
                w = np.random.default_rng(p["seed"]).standard_normal((p["k"], p["m"])).astype(np.float32) / np.sqrt(p["k"])
                r = a @ w
            elif op == "cumsum": r = jnp.cumsum(a, axis=p["axis"])
            elif op == "cummax": r = lax.cummax(a, axis=p["axis"])
            elif op == "to_int_floor": r = jnp.floor(jnp.clip(a, -1000.0, 1000.0)).astype(jnp.int32)
            elif op == "to_float": r = a.astype(jnp.float32)
            elif op == "ineg": r = -a
            elif op == "iabs": r = jnp.abs(a)
            elif op == "imul3": r = a * 3
            elif op == "iadd7": r = a + 7
            elif op == "ifloordiv3": r = a // 3
            elif op == "imod5": r = a % 5
            elif op == "ifloordiv_neg3": r = jnp.floor_divide(a, -3)
            elif op == "imod_neg4": r = jnp.remainder(a, -4)
            elif op == "isquare_clipped": r = jnp.clip(a, -100, 100) ** 2
            elif op == "ibitand7": r = a & 7
            elif op == "ishiftl1": r = jnp.left_shift(jnp.clip(a, -1000, 1000), 1)
            elif op == "count_gt": r = jnp.where(a > b, 1.0, 0.0) + jnp.sum(a > b).astype(jnp.float32)
            elif op == "select_lt": r = jnp.where(a < b, a - b, b - a)
            elif op == "cond_sum_pos": r = lax.cond(jnp.sum(a) > 0, lambda t: jnp.tanh(t) + 1.0, lambda t: t * 0.5 - 1.0, a)
            elif op == "fori3": r = lax.fori_loop(0, 3, lambda i, t: t * 0.9 + jnp.sin(t), a)
            elif op == "scan_rows": r = lax.scan(lambda c, row: (c + row, c * 0.5 + row), jnp.zeros(a.shape[1:], a.dtype), a)[1]
            elif op == "while_bounded": r = lax.while_loop(lambda s: (s[0] < 4) & (jnp.sum(jnp.abs(s[1])) < 1e3), lambda s: (s[0] + 1, s[1] * 1.5 + 0.1), (jnp.int32(0), a))[1]
            elif op == "take_const": r = jnp.take(a, jnp.array(p["idx"], jnp.int32), axis=0)
            elif op == "gather_rows_rev": r = a[jnp.arange(a.shape[0] - 1, -1, -1)]
            elif op == "dynamic_slice_const": r = lax.dynamic_slice_in_dim(a, p["start"], 1, axis=0)
            elif op == "one_hot_argmax": r = jax.nn.one_hot(jnp.argmax(a, axis=1), a.shape[1]) * a
            elif op == "softmax_last": r = jax.nn.softmax(a, axis=-1)
            elif op == "log_softmax_last": r = jax.nn.log_softmax(a, axis=-1)
            elif op == "layernorm_last": r = (a - jnp.mean(a, axis=-1, keepdims=True)) / jnp.sqrt(jnp.var(a, axis=-1, keepdims=True) + 1e-3)
            elif op == "l2norm_last": r = a / (jnp.sqrt(jnp.sum(a * a, axis=-1, keepdims=True)) + 0.1)
            else:
                raise ValueError(op)
            v.append(r)
        res = tuple(v[o] for o in outs)
        return res if len(res) > 1 else res[0]

    return f


def make_recipe(rng: np.random.Generator, n_steps: int) -> dict[str, Any]:
    shapes = [(3, 4), (4,), (2, 3, 4), (4, 4), (6,), (2, 6)]
    n_in = int(rng.integers(1, 4))
    inputs = []
    for k in range(n_in):
        s = shapes[int(rng.integers(len(shapes)))]
        inputs.append([list(s), I32 if (k > 0 and rng.random() < 0.2) else F32])
    avals = [(tuple(s), d) for s, d in inputs]
    steps = []
    for _ in range(n_steps):
        c = _candidates(avals, rng)
        if c is None:
            break
        op, ids, params, out = c
        if int(np.prod(out[0])) > 512 or len(out[0]) > 5:
            continue
        steps.append([op, ids, params])
        avals.append(out)
    n_total = len(avals)
    last = n_total - 1
    outs = [last]
    if n_total - n_in >= 3 and rng.random() < 0.5:
        outs.append(int(rng.integers(n_in, last)))
    return {"inputs": inputs, "steps": steps, "outputs": outs}


def cases(check: str, tier: str, seed: int) -> list[dict[str, Any]]:
    n = {"C01": (250, 4000), "C03": (150, 2000)}.get(check, (100, 1000))[0 if tier == "quick" else 1]
    rng = np.random.default_rng([seed, 4242, {"C01": 1, "C03": 3}.get(check, 9)])
    out = []
    for i in range(n):
        r = make_recipe(rng, int(rng.integers(3, 11)))
        if not r["steps"]:
            continue
        out.append({"key": f"gen:{i}", "src": "generated", "recipe": r, "cost": 0.6})
    return out


def build(case: dict[str, Any], upto: int | None = None) -> programs.Program:
    import jax

    r = case["recipe"]
    sig = [(tuple(s), np.dtype(d)) for s, d in r["inputs"]]
    fam = "gen/" + (r["steps"][upto][0] if upto is not None else "program")
    return programs.Program(
        pid=case["key"] + (f"[:{upto}]" if upto is not None else ""),
        family=fam,
        make_fn=lambda: interpret(r, upto),
        specs=lambda: [jax.ShapeDtypeStruct(s, d) for s, d in sig],
        signature=lambda b: sig,
        int_classes=["benign", "negative", "moderate"],
        # no denormal-producing classes: ORT's kernels flush subnormals to zero, XLA does not, and a composition
        # turns that into sign / floor / comparison flips (the sentinels own the edge classes, operator by operator)
        float_classes=["benign", "uniform", "halfint", "integral", "large"],
        source="generated",
    )


def minimise(case: dict[str, Any], draws, seed: int) -> tuple[int, str] | None:
    """First step whose value (as the sole output of the prefix program) disagrees."""
    from vlib import recs

    for k in range(len(case["recipe"]["steps"])):
        prog = build(case, upto=k)
        try:
            res = programs.differential(prog, draws, seed=seed)
        except Exception:  # noqa: BLE001
            continue
        rec = recs.record_from_differential(prog, res)
        if rec.get("violations"):
            return k, case["recipe"]["steps"][k][0]
        if rec.get("status") == "inconclusive":
            return k, case["recipe"]["steps"][k][0] + "(export)"
    return None
