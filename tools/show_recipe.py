#!/venv/bin/python
"""Debug helper: build a C02 recipe from a replay file, optimise, print both graphs."""
import json, sys, os
sys.path.insert(0, os.path.dirname(os.path.dirname(os.path.abspath(__file__)))); sys.path.insert(0, "/repo")
import onnx, onnx_ir as ir
from vlib import graphgen, interpose
from jax2onnx.converter import ir_optimizations as iro

d = json.load(open(sys.argv[1]))
r = d["case"]["recipe"]
print(json.dumps(r))
m = graphgen.build(r)
def show(m):
    print("inputs", [(i.name, [dd.dim_value or dd.dim_param for dd in i.type.tensor_type.shape.dim]) for i in m.graph.input])
    for n in m.graph.node:
        print("  ", n.op_type, list(n.input), "->", list(n.output), {a.name: (list(a.ints) or a.i) for a in n.attribute if a.type in (2, 7)})
    print("outputs", [(o.name, [dd.dim_value or dd.dim_param for dd in o.type.tensor_type.shape.dim]) for o in m.graph.output])
    vi = {v.name: [dd.dim_value or dd.dim_param for dd in v.type.tensor_type.shape.dim] for v in m.graph.value_info}
    print("value_info", vi)
    for f in m.functions:
        print("function", f.name, list(f.input), list(f.output))
        for n in f.node: print("    ", n.op_type, list(n.input), "->", list(n.output))
show(m)
irm = ir.from_proto(m)
with interpose.pass_monitor() as mon:
    iro.optimize_graph(irm)
print("changed by:", [e.name + "@" + e.scope for e in mon.events if e.changed])
show(ir.to_proto(irm))
post = ir.to_proto(irm)
try:
    onnx.checker.check_model(post, full_check=True); print("checker ok")
except Exception as e:
    print("CHECKER:", str(e)[:400])
print(post.graph.output)
