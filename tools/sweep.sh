#!/bin/bash
# usage: tools/sweep.sh <tier> <seed> [ids...]  - runs the checks and prints one summary line per check (+ new violations)
TIER=$1; SEED=$2; shift 2
IDS=${@:-C01 C02 C03 C04 C05 C06 C07 C08 C09 C10 C11 C12 C13 C14 C15 C16 C17 C18 C19}
cd /verif
for c in $IDS; do
  VERIF_SEED=$SEED ./check $c --tier $TIER 2>&1 | grep -a "family=\|tier=\|INCONCL" | grep -v "^KNOWN" | cut -c1-260
done
