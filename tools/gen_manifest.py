#!/venv/bin/python
"""Regenerate MANIFEST.json from checks.META (kept valid at all times)."""
import json
import os
import sys

HERE = os.path.dirname(os.path.dirname(os.path.abspath(__file__)))
sys.path.insert(0, HERE)
from checks import META, MANIFEST_TEXT  # noqa: E402

import subprocess

FIXES = "; ".join(
    l.strip() for l in subprocess.run(["git", "-C", "/repo", "log", "--reverse", "--grep", "^fix:", "--format=%h %s"], capture_output=True, text=True).stdout.splitlines()
)[:3000]
props = [json.loads(l)["id"] for l in open(os.path.join(HERE, "properties.jsonl"))]
checks = []
na = []
for pid in props:
    if pid in META and os.path.exists(os.path.join(HERE, "checks", pid.lower() + ".py")):
        t = MANIFEST_TEXT[pid]
        checks.append(
            {
                "property_id": pid,
                "quick_cmd": f"./check {pid} --tier quick",
                "thorough_cmd": f"./check {pid} --tier thorough",
                "evidence_file": f"/verif/evidence/{pid}.json",
                "replay_cmd_template": f"./check {pid} --replay {{path}}",
                "engine": "monitor",
                "level_claimed": {"category": META[pid]["level"], "text": t["level_text"], "design_ref": t["design_ref"]},
                "level_note": t["level_note"],
                "technique": t["technique"],
            }
        )
    else:
        na.append({"property_id": pid, "reason": "check not built yet in this session (planned, see DESIGN.md section 3); not claimed until its monitor exists"})
manifest = {
    "version": 1,
    "setup_cmd": "/venv/bin/python tools/setup_check.py",
    "hooks": {
        "guard": "JAX2ONNX_VERIF",
        "enable": "none required: all instrumentation is harness-side interposition applied from the check process (workers set JAX2ONNX_VERIF=1 only as a marker)",
        "baseline_off_cmd": "cd /repo && /venv/bin/python -m pytest -ra -q -p no:cacheprovider --timeout=900 --continue-on-collection-errors",
        "source_commits": [],
        "add_only": True,
    },
    "engines": [
        {
            "name": "monitor",
            "path": "/verif/check",
            "serves_properties": [c["property_id"] for c in checks],
            "kind_free_text": "runtime monitoring: the real exporter is driven over program x input x configuration x history workloads in worker subprocesses; oracles observe pairs of executions (ORT vs eager JAX, before vs after a pass, ...), the emitted ModelProto, and host-process state",
        }
    ],
    "checks": checks,
    "not_applicable": na,
    "notes": "Unguarded genuine-defect repairs in /repo (git log --grep '^fix:'): " + FIXES + ". Known findings: /verif/known_findings.json (mechanism-keyed). Seeded changes and which checks catch them: /verif/seeded/, DESIGN.md 8.6.",
}
json.dump(manifest, open(os.path.join(HERE, "MANIFEST.json"), "w"), indent=1)
print("wrote MANIFEST.json:", len(checks), "checks,", len(na), "not_applicable")
