#!/venv/bin/python
"""Run every seeded change against the checks in a scratch worktree of /repo.

usage: tools/seed_matrix.py [--seeds C01_a,C02_b,...] [--extra]  (writes seeded/MATRIX.json)

For each /verif/seeded/<id>/: apply patch.diff to a scratch worktree of /repo's HEAD
(never to /repo), run demo.py (must exit 1), run the quick tier of the checks listed
for that seed with VERIF_REPO pointing at the worktree and VERIF_OUT at a scratch
directory (so /verif/evidence is not touched), revert.  The worktree is removed at the
end.  A seed counts as caught by a check iff that check exits 1 with a VIOLATION line.
"""

from __future__ import annotations

import argparse
import json
import os
import re
import shutil
import subprocess
import sys
import tempfile

VERIF = os.path.dirname(os.path.dirname(os.path.abspath(__file__)))
SEEDED = os.path.join(VERIF, "seeded")

# which checks are asked about each seed (own property first; then checks that share the mechanism)
ALSO = {
    "C02_a": ["C17"], "C03_a": ["C07"], "C04_a": ["C12"], "C12_a": ["C04"], "C08_a": ["C02"], "C16_a": ["C06"],
    "C03_b": ["C02", "C06"], "C06_b": ["C16"], "C08_b": ["C07"], "C12_b": ["C02"], "C13_b": ["C09"], "C14_b": ["C13"], "C19_b": ["C07"],
    "C17_a": ["C02"], "C01_c": ["C10"], "C03_f": ["C07"], "C08_f": ["C01"], "C01_f": ["C19"], "C07_e": ["C10"], "C12_e": ["C02"], "C17_e": ["C02"], "C16_e": ["C01"], "C05_e": ["C09"], "C19_d": ["C06"], "C18_d": ["C09"], "C13_d": ["C09"], "C03_d": ["C07"], "C06_d": ["C16"], "C02_d": ["C08"], "C09_c": ["C07"], "C10_c": ["C07"], "C11_c": ["C06"], "C04_c": ["C06", "C08"], "C02_c": ["C12"],
}


def sh(cmd: list[str], **kw) -> subprocess.CompletedProcess:
    return subprocess.run(cmd, capture_output=True, text=True, **kw)


def main() -> int:
    ap = argparse.ArgumentParser()
    ap.add_argument("--seeds", default="")
    ap.add_argument("--out", default=os.path.join(SEEDED, "MATRIX.json"))
    args = ap.parse_args()
    seeds = sorted(d for d in os.listdir(SEEDED) if os.path.isfile(os.path.join(SEEDED, d, "patch.diff")))
    if args.seeds:
        want = set(args.seeds.split(","))
        seeds = [s for s in seeds if s in want]
    wt = tempfile.mkdtemp(prefix="seedmx_")
    os.rmdir(wt)
    out_dir = tempfile.mkdtemp(prefix="seedmx_out_")
    r = sh(["git", "-C", "/repo", "worktree", "add", "--detach", wt, "HEAD"])
    if r.returncode:
        print(r.stderr)
        return 2
    head = sh(["git", "-C", "/repo", "rev-parse", "--short", "HEAD"]).stdout.strip()
    results: dict[str, dict] = {}
    if os.path.exists(args.out):
        try:
            results = json.load(open(args.out))
        except Exception:  # noqa: BLE001
            results = {}
    try:
        for seed in seeds:
            sdir = os.path.join(SEEDED, seed)
            prop = seed.split("_")[0]
            entry: dict = {"property": prop, "repo_head": head, "checks": {}}
            sh(["git", "-C", wt, "checkout", "--", "."])
            a = sh(["git", "-C", wt, "apply", os.path.join(sdir, "patch.diff")])
            if a.returncode:
                entry["error"] = "patch does not apply: " + a.stderr[:200]
                results[seed] = entry
                continue
            env = dict(os.environ, PYTHONPATH=wt)
            try:
                d = sh(["/venv/bin/python", os.path.join(sdir, "demo.py")], cwd=wt, env=env, timeout=1200)
                entry["demo_exit_with_change"] = d.returncode
            except subprocess.TimeoutExpired:
                entry["demo_exit_with_change"] = "timeout"
            for cid in [prop] + ALSO.get(seed, []):
                env = dict(os.environ, VERIF_REPO=wt, VERIF_OUT=os.path.join(out_dir, seed))
                os.makedirs(env["VERIF_OUT"], exist_ok=True)
                c = sh([os.path.join(VERIF, "check"), cid, "--tier", "quick"], cwd=VERIF, env=env)
                viol = [ln for ln in c.stdout.splitlines() if ln.startswith("VIOLATION")]
                fam = [ln.strip() for ln in c.stdout.splitlines() if ln.strip().startswith("family=")]
                summ = [ln for ln in c.stdout.splitlines() if re.match(r"^C\d\d tier=", ln)]
                entry["checks"][cid] = {
                    "exit": c.returncode, "violation_lines": len(viol), "first": (fam[0][:220] if fam else None), "summary": summ[-1] if summ else c.stdout[-200:] + c.stderr[-200:],
                    "caught": c.returncode == 1 and bool(viol),
                }
                print(seed, cid, "CAUGHT" if entry["checks"][cid]["caught"] else f"missed (exit {c.returncode})", flush=True)
            sh(["git", "-C", wt, "checkout", "--", "."])
            try:
                d = sh(["/venv/bin/python", os.path.join(sdir, "demo.py")], cwd=wt, env=dict(os.environ, PYTHONPATH=wt), timeout=1200)
                entry["demo_exit_without_change"] = d.returncode
            except subprocess.TimeoutExpired:
                entry["demo_exit_without_change"] = "timeout"
            results[seed] = entry
            with open(args.out, "w") as fh:
                json.dump(results, fh, indent=1, sort_keys=True)
    finally:
        sh(["git", "-C", "/repo", "worktree", "remove", "--force", wt])
        shutil.rmtree(out_dir, ignore_errors=True)
    missed = [s for s in seeds if s in results and not any(c.get("caught") for c in results[s].get("checks", {}).values())]
    print("seeds:", len(seeds), "not caught by any asked check:", missed)
    return 0


if __name__ == "__main__":
    sys.exit(main())
