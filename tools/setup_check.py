#!/venv/bin/python
"""setup_cmd: nothing to build; verify the interpreter and third-party modules the checks need."""
import importlib
import os
import sys

need = ["numpy", "jax", "onnx", "onnx_ir", "onnxruntime", "ml_dtypes", "flax", "equinox"]
bad = []
for m in need:
    try:
        importlib.import_module(m)
    except Exception as exc:  # noqa: BLE001
        bad.append(f"{m}: {exc}")
if bad:
    print("setup failed:", bad)
    sys.exit(1)
here = os.path.dirname(os.path.dirname(os.path.abspath(__file__)))
os.makedirs(os.path.join(here, "evidence"), exist_ok=True)
print("setup ok")
