#!/bin/bash
# usage: tools/try_seed.sh <seed dir name under /verif/seeded> <check id> [<check id> ...]
# Applies the seeded change to /repo, runs the demo and the given checks (quick tier), reverts.
set -u
S=/verif/seeded/$1; shift
cd /repo || exit 2
if [ -n "$(git status --porcelain --untracked-files=no)" ]; then echo "repo dirty"; exit 2; fi
git apply "$S/patch.diff" || { echo "patch does not apply"; exit 2; }
echo "== demo with change:"; (cd /repo && PYTHONPATH=/repo timeout 600 /venv/bin/python "$S/demo.py" 2>&1 | grep -v WARNING | tail -4); echo "demo exit=${PIPESTATUS[0]}"
for c in "$@"; do
  echo "== check $c (seed=${VERIF_SEED:-0}):"
  (cd /verif && ./check "$c" --tier "${TIER:-quick}" ${ONLY:+--only "$ONLY"} 2>&1 | grep -a "^VIOLATION\|family=\|tier=\|INCONCL" | cut -c1-260 | head -12)
done
git -C /repo checkout -- . 
echo "== demo without change:"; (cd /repo && PYTHONPATH=/repo timeout 600 /venv/bin/python "$S/demo.py" 2>&1 | grep -v WARNING | tail -2)
git -C /repo status --porcelain --untracked-files=no | head -3
