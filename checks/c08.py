"""C08 — static type and shape annotations never contradict run time."""

from __future__ import annotations

import contextlib
from typing import Any

import numpy as np
import onnx

from vlib import bodydriver, inputs as vin, modelwalk, ortrun, programs, recs, registry
from vlib.substrate import stable_hash


def enumerate_cases(tier: str, seed: int) -> list[dict[str, Any]]:
    cases: list[dict[str, Any]] = []
    per: dict[tuple[str, bool], int] = {}
    for tp in registry.corpus():
        heavy = registry.is_heavy(tp)
        if tier == "quick":
            if heavy or tp["_dp"]:
                continue
            k = (tp["_family"], tp["_dp"])
            if per.get(k, 0) >= 1:
                continue
            per[k] = per.get(k, 0) + 1
        elif heavy:
            continue
        cases.append({"key": f"reg:{tp['_pid']}", "src": "registry", "pid": tp["_pid"], "cost": 1.0})
    from checks import c04, c06

    for name in c06._family():
        cases.append({"key": f"cf:{name}", "src": "cf", "name": name, "cost": 1.0})
    for name in c04._shape_programs():
        cases.append({"key": f"shape:{name}", "src": "shape", "name": name, "cost": 1.0})
    from vlib import fnmods7

    for name in fnmods7.programs(True):
        cases.append({"key": f"fn:{name}", "src": "fn", "name": name, "cost": 1.0})
    for name in _fold_programs():
        cases.append({"key": f"fold:{name}", "src": "fold", "name": name, "cost": 1.0})
    # structural sentinels: axis sweeps, contraction layouts, permutations (the lowering stamps shapes by hand there)
    from vlib import sentinels

    for name in sentinels.table():
        if name.startswith(("axis3_", "axis4_", "dot_general", "einsum", "transpose", "idx_", "index")):
            cases.append({"key": f"sent:{name}", "src": "sentinel", "name": name, "cost": 0.5})
    return recs.only_filter(cases)


def _fold_programs() -> dict[str, dict[str, Any]]:
    """Programs whose export goes through the shape-rewriting optimizer folds."""
    import jax
    import jax.numpy as jnp

    P: dict[str, dict[str, Any]] = {}
    X = [(2, 3, 4)]
    un = {"tanh": jnp.tanh, "elu": jax.nn.elu, "relu": jax.nn.relu, "sigmoid": jax.nn.sigmoid, "gelu": jax.nn.gelu, "leaky_relu": jax.nn.leaky_relu,
          "abs": jnp.abs, "neg": jnp.negative, "exp": jnp.exp, "clip": lambda v: jnp.clip(v, -0.2, 0.2), "max0": lambda v: jnp.maximum(v, 0.1), "swish": jax.nn.silu}
    names = list(un)
    for i, a in enumerate(names):
        for b in names[i + 1:: 3]:
            P[f"reshape_{a}_{b}_reshape"] = {"fn": (lambda fa, fb: lambda x: fb(fa(x.reshape(-1))).reshape(2, 3, 4) * 2.0 + 1.0)(un[a], un[b]), "shapes": X}
            P[f"transpose_{a}_{b}_transpose"] = {"fn": (lambda fa, fb: lambda x: jnp.transpose(fb(fa(jnp.transpose(x, (2, 0, 1)))), (1, 2, 0)) + x)(un[a], un[b]), "shapes": X}
    P["reshape_not_chain"] = {"fn": lambda x: jnp.logical_not(jnp.logical_not((x > 0).reshape(-1))).reshape(2, 3, 4), "shapes": X}
    P["reshape_three_chain"] = {"fn": lambda x: jax.nn.elu(jnp.tanh(jax.nn.relu(x.reshape(6, 4)))).reshape(2, 3, 4) - x, "shapes": X}
    P["reshape_chain_symbolic"] = {"fn": lambda x: jax.nn.elu(jnp.tanh(x.reshape(x.shape[0], -1))).reshape(x.shape[0], 3, 4) * 3.0, "shapes": [("B", 3, 4)]}
    P["nchw_reduce_mean_chain"] = {"fn": lambda x: jax.nn.elu(x - jnp.mean(x, axis=(1, 2), keepdims=True)) * 2.0, "shapes": [(2, 4, 4, 3)], "kw": {"inputs_as_nchw": [0], "outputs_as_nchw": [0]}}
    P["cast_roundtrip_chain"] = {"fn": lambda x: jax.nn.elu(x.astype(jnp.float64).astype(jnp.float32).reshape(-1)).reshape(2, 3, 4), "shapes": X}
    return P


# ----------------------------------------------------------------------------
# post-processing monotonicity (step 4)
# ----------------------------------------------------------------------------


def _annotations(proto: onnx.ModelProto) -> dict[str, tuple[Any, Any, str]]:
    out: dict[str, tuple[Any, Any, str]] = {}
    for gp, kind, vi in modelwalk.iter_all_value_infos(proto):
        out[f"{gp}:{vi.name}"] = (modelwalk.vi_elem_type(vi), modelwalk.vi_shape(vi), kind if gp == "main" else "value_info")
    return out


def _weaker_or_equal(after: Any, before: Any) -> bool:
    """dims: None <= symbolic <= concrete"""
    if after is None:
        return True
    if before is None:
        return False
    if len(after) != len(before):
        return False
    for a, b in zip(after, before):
        if a is None:
            continue
        if isinstance(a, str):
            if b is None:
                return False
            continue
        if a != b:
            return False
    return True


@contextlib.contextmanager
def _postprocess_monitor(log: list[dict[str, Any]]):
    import onnx_ir as ir
    from jax2onnx import user_interface as ui

    orig = ui.postprocess_ir_model

    def wrapped(model, **kw):
        try:
            before = _annotations(ir.to_proto(model))
        except Exception:  # noqa: BLE001
            before = None
        res = orig(model, **kw)
        try:
            after = _annotations(ir.to_proto(model))
        except Exception:  # noqa: BLE001
            after = None
        log.append({"before": before, "after": after, "promote": kw.get("promote_to_double")})
        return res

    ui.postprocess_ir_model = wrapped
    try:
        yield
    finally:
        ui.postprocess_ir_model = orig


def _postprocess_problems(entry: dict[str, Any]) -> tuple[list[dict[str, str]], int]:
    probs: list[dict[str, str]] = []
    before, after = entry["before"], entry["after"]
    if before is None or after is None:
        return probs, 0
    n = 0
    for k, (et_b, shp_b, kind) in before.items():
        if k not in after:
            continue
        et_a, shp_a, _ = after[k]
        n += 1
        if kind in ("input", "output"):
            promoted = entry.get("promote") and et_b == onnx.TensorProto.FLOAT and et_a == onnx.TensorProto.DOUBLE
            if (et_a != et_b and not promoted) or shp_a != shp_b:
                probs.append({"kind": "postprocess_changes_interface", "text": f"post-processing changed the graph {kind} annotation {k}: {modelwalk.dtype_name(et_b)}{shp_b} -> {modelwalk.dtype_name(et_a)}{shp_a}"})
        else:
            if not _weaker_or_equal(shp_a, shp_b):
                probs.append({"kind": "postprocess_strengthens", "text": f"post-processing made the annotation of {k} stronger / different: {shp_b} -> {shp_a}"})
    return probs, n


# ----------------------------------------------------------------------------


def _prog_for(case: dict[str, Any]) -> tuple[programs.Program, list[list[np.ndarray]] | None]:
    """(program, explicit feeds or None)"""
    if case["src"] == "registry":
        return programs.from_registry(registry.by_pid(case["pid"])), None
    if case["src"] == "sentinel":
        from vlib import sentinels

        return sentinels.build(case), None
    if case["src"] == "shape":
        from checks import c04

        return c04._build_shape_prog({"name": case["name"], "dp": False, "key": case["key"]}), None
    if case["src"] in ("fn", "fold"):
        from vlib import fnmods7

        D = fnmods7.programs(True)[case["name"]] if case["src"] == "fn" else _fold_programs()[case["name"]]
        dts = D.get("dtypes") or [np.float32] * len(D["shapes"])
        kw = dict(D.get("kw", {}))
        dp = bool(kw.pop("enable_double_precision", False))
        syms = sorted({d for s in D["shapes"] for d in s if isinstance(d, str)})
        import jax

        return programs.Program(
            pid=case["key"], family=f"{case['src']}/{case['name']}", make_fn=lambda: D["fn"],
            specs=lambda: [jax.ShapeDtypeStruct(tuple(s), np.float64 if dp and dt == np.float32 else dt) for s, dt in zip(D["shapes"], dts)],
            signature=lambda b: [(tuple(int(b.get(d, 3)) if isinstance(d, str) else int(d) for d in s), np.dtype(np.float64 if dp and dt == np.float32 else dt)) for s, dt in zip(D["shapes"], dts)],
            dp=dp, kwargs=kw, symbols=syms, source="fn"), None
    from checks import c06
    import jax

    spec = c06._family()[case["name"]]
    sig = spec["sig"]
    syms = sorted({d for s, _ in sig for d in s if isinstance(d, str)})
    prog = programs.Program(
        pid=case["key"], family=f"cf/{case['name']}", make_fn=lambda: spec["fn"],
        specs=lambda: [jax.ShapeDtypeStruct(tuple(s), dt) for s, dt in sig],
        signature=lambda b: [(tuple(int(b.get(d, 3)) if isinstance(d, str) else int(d) for d in s), np.dtype(dt)) for s, dt in sig],
        symbols=syms, source="cf")
    return prog, [list(f) for f in spec["steer"]]


def run_case(case: dict[str, Any], tier: str, seed: int) -> dict[str, Any]:
    rec: dict[str, Any] = {"evals": 0, "nontrivial": [], "violations": [], "obs": {}}
    prog, feeds = _prog_for(case)
    log: list[dict[str, Any]] = []
    with _postprocess_monitor(log):
        try:
            model = prog.export()
        except Exception as exc:  # noqa: BLE001
            return {"status": "inconclusive", "reason": "export_raises", "detail": f"{type(exc).__name__}: {str(exc)[:200]}"}
    if not log:
        rec["obs"]["postprocess_interposer_not_reached"] = 1
    for entry in log:
        pp, n = _postprocess_problems(entry)
        rec["obs"]["postprocess_annotations_compared"] = rec["obs"].get("postprocess_annotations_compared", 0) + n
        for p in pp[:4]:
            rec["violations"].append({"family": prog.family, "program": prog.pid, "kind": p["kind"], "cls": "postprocess", "text": f"{prog.pid}: {p['text']}"})
    try:
        sess = ortrun.session(model)
    except ortrun.OrtEnvLimit:
        return {"status": "inconclusive", "reason": "ort_env_limit"}
    except ortrun.OrtLoadError as exc:
        return {"status": "inconclusive", "reason": "ort_load_error(C03 matter)", "detail": str(exc)[:150]}
    rng = np.random.default_rng([seed, stable_hash(case["key"]) % 2**31])
    runs: list[tuple[str, list[np.ndarray]]] = []
    if feeds is not None:
        for f in feeds[:6]:
            runs.append(("steer", f))
    elif prog.given is not None:
        runs.append(("given", list(prog.given[0])))
    else:
        bindings = [{s: 2 + i for i, s in enumerate(prog.symbols)}, {s: 5 - (i % 3) for i, s in enumerate(prog.symbols)}] if prog.symbols else [{}]
        for b in bindings:
            xs = vin.draw(prog.signature(b), "benign", "benign", rng)
            if prog.fix_inputs:
                xs = prog.fix_inputs(xs, rng)
            runs.append((",".join(f"{k}={v}" for k, v in b.items()) or "static", xs))
    for tag, xs in runs:
        try:
            feed = ortrun.build_feed(sess, programs.ort_feeds_for(prog, xs), prog.params)
            ortrun.run(sess, feed)  # the run itself must be admissible
        except Exception:  # noqa: BLE001
            rec["obs"]["feed_not_admissible"] = rec["obs"].get("feed_not_admissible", 0) + 1
            continue
        problems, stats = bodydriver.annotation_problems(model, feed)
        rec["evals"] += 1
        for k, v in stats.items():
            rec["obs"][k] = rec["obs"].get(k, 0) + v
        if stats.get("annotated_values_executed", 0) > 0:
            rec["nontrivial"].append(f"{prog.pid}|{tag}" + (f"#{len(rec['nontrivial'])}" if tag == "steer" else ""))
        seen = set()
        for p in problems:
            key = (p["kind"], p["text"].split(" axis")[0])
            if key in seen:
                continue
            seen.add(key)
            rec["violations"].append({"family": prog.family, "program": prog.pid, "kind": "annotation_" + p["kind"], "cls": tag if tag in ("given", "static", "steer") else "binding", "text": f"{prog.pid} [{tag}]: {p['text']}"})
            if len(seen) >= 4:
                break
    rec["status"] = "violated" if rec["violations"] else "held"
    rec["sample"] = {"program": prog.pid, "runs": [t for t, _ in runs][:4], "annotated_values_executed": rec["obs"].get("annotated_values_executed", 0)}
    return rec
