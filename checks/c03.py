"""C03 — every export is a well-formed, loadable ONNX model."""

from __future__ import annotations

from typing import Any

from vlib import artefact, programs, recs, registry
from vlib.substrate import stable_hash

CONFIGS_EXTRA = ["opset21", "opset24", "ir_mode"]


def enumerate_cases(tier: str, seed: int) -> list[dict[str, Any]]:
    cases = []
    per_family: dict[tuple[str, bool], int] = {}
    for tp in registry.corpus():
        heavy = registry.is_heavy(tp)
        if tier == "quick":
            if heavy:
                continue
            k = (tp["_family"], tp["_dp"])
            n = per_family.get(k, 0)
            per_family[k] = n + 1
            if n >= 2:
                continue
        cfgs = ["own"]
        if tier == "thorough":
            if not heavy:
                cfgs += CONFIGS_EXTRA
        elif (stable_hash(tp["_pid"]) + seed) % 8 == 0:
            cfgs += CONFIGS_EXTRA
        for cfg in cfgs:
            c = {"key": f"reg:{tp['_pid']}@{cfg}", "src": "registry", "pid": tp["_pid"], "cfg": cfg, "cost": 30.0 if heavy else 1.0}
            if heavy:
                c["timeout"] = 900
            cases.append(c)
    try:
        from vlib import generated

        cases += generated.cases("C03", tier, seed)
    except ImportError:
        pass
    try:
        from vlib import sentinels

        cases += sentinels.cases("C03", tier, seed)
    except ImportError:
        pass
    from checks import c04, c06
    from vlib import fnmods7

    for name in c06._family():
        cases.append({"key": f"cf:{name}", "src": "other", "family": "cf", "name": name, "cost": 0.5})
    for name in fnmods7.programs(True):
        cases.append({"key": f"fn:{name}", "src": "other", "family": "fn", "name": name, "cost": 0.5})
    for name in c04._shape_programs():
        cases.append({"key": f"shape:{name}", "src": "other", "family": "shape", "name": name, "cost": 0.5})
    return recs.only_filter(cases)


def _export(prog: programs.Program, cfg: str) -> Any:
    import onnx_ir as ir

    if cfg == "own":
        return prog.export()
    if cfg == "opset21":
        return prog.export(opset=21)
    if cfg == "opset24":
        return prog.export(opset=24)
    if cfg == "ir_mode":
        return ir.to_proto(prog.export(return_mode="ir"))
    raise ValueError(cfg)


def run_case(case: dict[str, Any], tier: str, seed: int) -> dict[str, Any]:
    if case["src"] == "other":
        from checks import c08

        prog, _ = c08._prog_for({"src": {"cf": "cf", "fn": "fn", "shape": "shape"}[case["family"]], "name": case["name"], "key": case["key"]})
    elif case["src"] == "registry":
        prog = programs.from_registry(registry.by_pid(case["pid"]))
    elif case["src"] == "sentinel":
        from vlib import sentinels

        prog = sentinels.build(case)
    else:
        from vlib import generated

        prog = generated.build(case)
    if not prog.kwargs.get("opset") and case["src"] == "sentinel":
        prog.family = prog.family  # sentinels: default opset
    cfg = case.get("cfg", "own")
    try:
        model = _export(prog, cfg)
    except Exception as exc:  # noqa: BLE001
        return {"status": "inconclusive", "reason": "export_raises", "detail": f"{type(exc).__name__}: {str(exc)[:200]}"}
    problems, obs = artefact.validity_problems(model)
    cnt = artefact.count_model(model)
    obs.update({"nodes_walked": cnt["nodes"], "subgraphs_walked": cnt["subgraphs"], "function_bodies_walked": cnt["functions"]})
    rec: dict[str, Any] = {"evals": 1, "obs": obs, "violations": [], "nontrivial": []}
    if cnt["nodes"] >= 1:
        rec["nontrivial"].append(f"{prog.pid}@{cfg}")
    for p in problems:
        rec["violations"].append(
            {"family": prog.family, "program": prog.pid, "kind": p["kind"], "cls": cfg if cfg != "own" else "default", "text": f"{prog.pid}@{cfg}: {p['text']}"}
        )
    rec["status"] = "violated" if problems else "held"
    rec["sample"] = {"program": prog.pid, "config": cfg, **cnt}
    return rec
