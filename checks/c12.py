"""C12 — layout flags only add boundary transposes."""

from __future__ import annotations

import itertools
from typing import Any

import numpy as np

from vlib import inputs as vin
from vlib import oracle, ortrun, programs, recs, registry
from vlib.substrate import stable_hash

NHWC_TO_NCHW = (0, 3, 1, 2)
NCHW_TO_NHWC = (0, 2, 3, 1)


def _nhwc_programs() -> dict[str, dict[str, Any]]:
    import jax
    import jax.numpy as jnp
    from jax import lax

    P: dict[str, dict[str, Any]] = {}

    def add(name, fn, shapes):
        P[name] = {"fn": fn, "shapes": shapes}

    S = (2, 4, 4, 3)  # square spatial dims: a wrong permutation still type-checks
    Q = (2, 3, 3, 3)  # H = W = C: every permutation type-checks
    w = np.arange(2 * 2 * 3 * 3, dtype=np.float32).reshape(2, 2, 3, 3) / 10.0
    add("residual_add", lambda x, y: x + y * 2, [S, S])
    add("per_channel_scale", lambda x: x * jnp.array([1.0, 2.0, 3.0], jnp.float32) + jnp.array([0.5, 0.0, -0.5], jnp.float32), [S])
    add("reduce_mean_hw_keepdims", lambda x: x - jnp.mean(x, axis=(1, 2), keepdims=True), [S])
    add("reduce_mean_hw", lambda x: (jnp.mean(x, axis=(1, 2)), x), [S])
    add("user_transpose", lambda x: jnp.transpose(x, (0, 3, 1, 2)) * 2, [Q])
    add("user_transpose_roundtrip", lambda x: jnp.transpose(jnp.tanh(jnp.transpose(x, (0, 3, 1, 2))), (0, 2, 3, 1)), [S])
    add("max_with_second_operand", lambda x, y: jnp.maximum(x, y), [Q, Q])
    add("max_of_transposed", lambda x, y: jnp.maximum(jnp.transpose(x, (0, 3, 1, 2)), y), [Q, Q])
    add("min_clip_chain", lambda x, y: jnp.clip(jnp.minimum(x, y), -0.5, 0.5), [Q, Q])
    add("input_returned", lambda x, y: (x, x + y), [S, S])
    add("mixed_rank", lambda x, v: x * v[None, None, None, :] + v.sum(), [S, (3,)])
    add("conv_relu", lambda x: jax.nn.relu(lax.conv_general_dilated(x, jnp.asarray(w), (1, 1), "SAME", dimension_numbers=("NHWC", "HWIO", "NHWC"))), [S])
    add("conv_residual", lambda x: x + lax.conv_general_dilated(x, jnp.asarray(w), (1, 1), "SAME", dimension_numbers=("NHWC", "HWIO", "NHWC")), [S])
    add("avg_pool", lambda x: lax.reduce_window(x, 0.0, lax.add, (1, 2, 2, 1), (1, 2, 2, 1), "VALID") / 4.0, [S])
    add("two_outputs_one_3d", lambda x: (jnp.tanh(x), x.sum(axis=1)), [S])
    add("symbolic_batch", lambda x, y: x * 2 + y, [("B", 4, 4, 3), ("B", 4, 4, 3)])
    add("symbolic_hw_pool_by_shape", lambda x: x - jnp.sum(x, axis=(1, 2), keepdims=True) / (x.shape[1] * x.shape[2]), [("B", "H", "W", 3)])
    add("symbolic_hw_tokens", lambda x: lax.reshape(x, (x.shape[0], x.shape[1] * x.shape[2], 3)).sum(axis=1)[:, None, None, :] + x, [("B", "H", "W", 3)])
    add("add_chain_intermediate_returned", lambda x, y, z: (x + y, (x + y) + z), [S, S, S])
    add("add_chain_root_first", lambda x, y, z: ((x + y) + z, x + y), [S, S, S])
    add("add_chain_three_middle_returned", lambda x, y, z: (lambda a: (lambda b: (b + x, b, a))(a + z))(x + y), [S, S, S])
    add("add_tree_both_leaves_returned", lambda x, y, z: (lambda a, b: (a + b, a, b))(x + y, y + z), [S, S, S])
    add("relu_chain_intermediate_returned", lambda x: (lambda a: (jnp.tanh(a), a))(jax.nn.relu(x)), [S])
    add("two_pooled_descriptors", lambda x: (jnp.mean(x, axis=(1, 2), keepdims=True), jnp.mean(x, axis=3, keepdims=True)), [S])
    add("row_and_column_profiles", lambda x: (jnp.mean(x, axis=1, keepdims=True), jnp.mean(x, axis=2, keepdims=True), jnp.max(x, axis=(1, 2), keepdims=True)), [S])
    add("two_inputs_two_pools", lambda x, y: (jnp.mean(x, axis=(1, 2), keepdims=True) + 0.0, jnp.sum(y, axis=1, keepdims=True)), [S, S])
    add("pooled_returned_twice", lambda x: (jnp.mean(x, axis=(1, 2), keepdims=True),) * 2, [S])
    add("row_pooled_returned_twice", lambda x: (lambda m: (m, m))(jnp.mean(x, axis=1, keepdims=True)), [S])
    add("pooled_and_captured_by_cond", lambda x: (lambda m: (m, lax.cond(jnp.sum(x) > 0, lambda: m * 2.0, lambda: -m)))(jnp.mean(x, axis=(1, 2), keepdims=True)), [S])
    add("tanh_returned_twice", lambda x: (lambda t: (t, t, t.sum(axis=(1, 2))))(jnp.tanh(x)), [S])
    add("add_forest", lambda a, b, c: (a + b) + (c + a), [Q, Q, Q])
    add("softmax_channels", lambda x: jax.nn.softmax(x, axis=-1), [S])
    add("concat_channels", lambda x, y: jnp.concatenate([x, y], axis=-1), [S, S])
    add("flip_hw", lambda x: jnp.swapaxes(x, 1, 2) + 1, [Q])
    return P


def _sig_of(shapes, binding, dt):
    return [(tuple(int(binding.get(d, 2)) if isinstance(d, str) else int(d) for d in s), np.dtype(dt)) for s in shapes]


def enumerate_cases(tier: str, seed: int) -> list[dict[str, Any]]:
    cases: list[dict[str, Any]] = []
    for name in _nhwc_programs():
        for opt in ("on", "off") if tier == "thorough" else ("on",):
            cases.append({"key": f"nhwc:{name}@opt_{opt}", "src": "nhwc", "name": name, "optimizer": opt, "cost": 3.0})
    # registry programs with >= 1 4-D input (static or symbolic)
    per_family: dict[str, int] = {}
    for tp in registry.corpus():
        if tp["_dp"] or registry.is_heavy(tp) or registry.input_kind(tp) != "shapes":
            continue
        if tp.get("inputs_as_nchw") or tp.get("outputs_as_nchw"):
            continue
        shapes = tp.get("input_shapes") or []
        if not any(isinstance(s, (list, tuple)) and len(s) == 4 for s in shapes):
            continue
        if tier == "quick":
            n = per_family.get(tp["_family"], 0)
            per_family[tp["_family"]] = n + 1
            if n >= 1:
                continue
        cases.append({"key": f"reg:{tp['_pid']}", "src": "registry", "pid": tp["_pid"], "optimizer": "on", "cost": 2.0})
    for i, bad in enumerate(INVALID):
        cases.append({"key": f"invalid:{i}:{bad['what']}", "src": "invalid", "idx": i, "cost": 0.2})
    return recs.only_filter(cases)


INVALID = [
    {"what": "input_index_out_of_range", "kw": {"inputs_as_nchw": [2]}},
    {"what": "input_index_negative", "kw": {"inputs_as_nchw": [-1]}},
    {"what": "input_index_duplicate", "kw": {"inputs_as_nchw": [0, 0]}},
    {"what": "input_index_boolean", "kw": {"inputs_as_nchw": [True]}},
    {"what": "input_index_float", "kw": {"inputs_as_nchw": [0.0]}},
    {"what": "input_not_4d", "kw": {"inputs_as_nchw": [1]}},
    {"what": "output_index_out_of_range", "kw": {"outputs_as_nchw": [2]}},
    {"what": "output_index_negative", "kw": {"outputs_as_nchw": [-1]}},
    {"what": "output_index_duplicate", "kw": {"outputs_as_nchw": [0, 0]}},
    {"what": "output_index_boolean", "kw": {"outputs_as_nchw": [False]}},
    {"what": "output_not_4d", "kw": {"outputs_as_nchw": [1]}},
]


def _subsets(idx: list[int], cap: int, rng) -> list[tuple[int, ...]]:
    all_ = [c for r in range(len(idx) + 1) for c in itertools.combinations(idx, r)]
    if len(all_) <= cap:
        return all_
    keep = [all_[0], all_[-1]]
    rest = all_[1:-1]
    pick = rng.choice(len(rest), size=cap - 2, replace=False)
    return keep + [rest[i] for i in sorted(pick)]


def run_case(case: dict[str, Any], tier: str, seed: int) -> dict[str, Any]:
    from jax2onnx.user_interface import to_onnx

    rec: dict[str, Any] = {"evals": 0, "nontrivial": [], "violations": [], "obs": {}}
    if case["src"] == "invalid":
        import jax.numpy as jnp

        bad = INVALID[case["idx"]]
        fn = lambda x, v: (x * v[None, None, None, :], v * 2)  # noqa: E731  (input 1 / output 1 are not 4-D)
        try:
            to_onnx(fn, [(2, 4, 4, 3), (3,)], **bad["kw"])
        except (ValueError, TypeError) as exc:
            rec["evals"] = 1
            rec["nontrivial"].append(case["key"])
            rec["status"] = "held"
            rec["sample"] = {"invalid": bad["what"], "kwargs": bad["kw"], "raised": f"{type(exc).__name__}: {str(exc)[:100]}"}
            return rec
        except Exception as exc:  # noqa: BLE001
            rec["evals"] = 1
            rec["nontrivial"].append(case["key"])
            rec["obs"]["invalid_rejected_with_internal_exception"] = 1
            rec["status"] = "held"
            rec["sample"] = {"invalid": bad["what"], "raised": f"{type(exc).__name__}: {str(exc)[:100]}"}
            return rec
        rec["evals"] = 1
        rec["violations"].append({"family": "layout/invalid", "kind": "invalid_accepted", "cls": bad["what"], "text": f"to_onnx accepted {bad['kw']} ({bad['what']})"})
        rec["status"] = "violated"
        return rec

    if case["src"] == "nhwc":
        spec = _nhwc_programs()[case["name"]]
        shapes = spec["shapes"]
        syms = sorted({d for s in shapes for d in s if isinstance(d, str)})
        prog = programs.Program(
            pid=case["key"],
            family=f"nhwc/{case['name']}",
            make_fn=lambda: spec["fn"],
            specs=lambda: [tuple(s) for s in shapes],
            signature=lambda b: _sig_of(shapes, b, np.float32),
            symbols=syms,
            source="nhwc",
        )
    else:
        prog = programs.from_registry(registry.by_pid(case["pid"]))
        if not prog.numeric:
            return {"status": "skipped", "reason": "metadata_skips_numeric_validation"}
    rng = np.random.default_rng([seed, stable_hash(case["key"]) % 2**31])
    binding = {s: v for s, v in zip(prog.symbols, (2, 5, 4, 7))}
    sig = prog.signature(binding)
    in4 = [i for i, (s, _) in enumerate(sig) if len(s) == 4]

    import contextlib

    @contextlib.contextmanager
    def optimizer(mode: str):
        if mode == "on":
            yield
            return
        from jax2onnx.converter import conversion_api as capi

        orig = capi.optimize_graph
        capi.optimize_graph = lambda *a, **k: None
        try:
            yield
        finally:
            capi.optimize_graph = orig

    with optimizer(case["optimizer"]):
        try:
            plain = prog.export()
        except Exception as exc:  # noqa: BLE001
            return {"status": "inconclusive", "reason": "export_raises", "detail": f"{type(exc).__name__}: {str(exc)[:200]}"}
        if registry.randomness(plain) != "no":
            return {"status": "skipped", "reason": "nondeterministic_by_construction"}
        try:
            sess0 = ortrun.session(plain)
        except (ortrun.OrtEnvLimit, ortrun.OrtLoadError) as exc:
            return {"status": "inconclusive", "reason": "plain_export_not_loadable", "detail": str(exc)[:200]}
        feeds = [vin.draw(sig, fc, "benign", rng) for fc in ("benign", "uniform")]
        try:
            base = [ortrun.run(sess0, ortrun.build_feed(sess0, xs, prog.params)) for xs in feeds]
        except ortrun.OrtRunError as exc:
            return {"status": "inconclusive", "reason": "plain_export_fails_at_runtime", "detail": str(exc)[:200]}
        out4 = [i for i, o in enumerate(base[0]) if np.asarray(o).ndim == 4]
        if not in4 and not out4:
            return {"status": "skipped", "reason": "no_4d_input_or_output"}
        cap = 16 if tier == "quick" else 64
        combos = [(I, O) for I in _subsets(in4, 8, rng) for O in _subsets(out4, 8, rng) if I or O]
        if len(combos) > cap:
            pick = rng.choice(len(combos), size=cap, replace=False)
            combos = [combos[i] for i in sorted(pick)]
            rec["obs"]["subset_space_sampled"] = 1
        else:
            rec["obs"]["subset_space_exhaustive"] = 1
        for I, O in combos:
            cls = f"in{list(I)}out{list(O)}"
            try:
                flagged = prog.export(inputs_as_nchw=list(I) or None, outputs_as_nchw=list(O) or None)
            except Exception as exc:  # noqa: BLE001
                rec["violations"].append({"family": prog.family, "program": prog.pid, "kind": "flagged_export_raises", "cls": cls, "text": f"{prog.pid} {cls}: plain export succeeds, flagged export raises {type(exc).__name__}: {str(exc)[:200]}"})
                continue
            rec["evals"] += 1
            try:
                sess = ortrun.session(flagged)
            except ortrun.OrtEnvLimit:
                rec["obs"]["ort_env_limit"] = rec["obs"].get("ort_env_limit", 0) + 1
                continue
            except ortrun.OrtLoadError as exc:
                rec["violations"].append({"family": prog.family, "program": prog.pid, "kind": "flagged_model_invalid", "cls": cls, "text": f"{prog.pid} {cls}: ORT refuses the flagged model: {str(exc)[:250]}"})
                continue
            ok_all = True
            for xs, ref in zip(feeds, base):
                fx = [np.transpose(x, NHWC_TO_NCHW) if i in I else x for i, x in enumerate(xs)]
                try:
                    got = ortrun.run(sess, ortrun.build_feed(sess, fx, prog.params))
                except ortrun.OrtRunError as exc:
                    rec["violations"].append({"family": prog.family, "program": prog.pid, "kind": "flagged_model_fails_at_runtime", "cls": cls, "text": f"{prog.pid} {cls}: {str(exc)[:250]}"})
                    ok_all = False
                    break
                exp = [np.transpose(o, NHWC_TO_NCHW) if i in O else o for i, o in enumerate(ref)]
                c = oracle.compare(exp, got, int_widening_ok=False)
                rec["obs"]["elements_compared"] = rec["obs"].get("elements_compared", 0) + c.n_compared
                if not c.ok and not c.unstable_only:
                    rec["violations"].append({"family": prog.family, "program": prog.pid, "kind": "layout_" + (c.kind or "value"), "cls": cls, "text": f"{prog.pid} {cls} (optimizer {case['optimizer']}): flagged model is not the transposed plain model: {c.text}"})
                    ok_all = False
                    break
            if ok_all:
                rec["nontrivial"].append(f"{prog.pid}|{cls}")
    rec["status"] = "violated" if rec["violations"] else "held"
    rec["sample"] = {"program": prog.pid, "flag_subsets": [f"in{list(I)}out{list(O)}" for I, O in combos[:6]], "n_subsets": len(combos)}
    return rec
