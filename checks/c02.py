"""C02 — the graph optimizer never changes what a model computes."""

from __future__ import annotations

from typing import Any

import numpy as np
import onnx

from vlib import graphgen, interpose, modelwalk, oracle, ortrun, programs, recs, registry
from vlib.substrate import stable_hash

REASSOCIATING = {"remove_redundant_transpose_reduce"}


def features(r: dict[str, Any]) -> str:
    if r.get("t") == "pair":
        return f"pair({r['a']['t']}:{features(r['a'])}|{r['b']['t']}:{features(r['b'])})"
    f: list[str] = []
    if r.get("extra_outputs"):
        f.append("mid_is_output")
    if r.get("extra_consumers"):
        f.append("mid_second_consumer")
    if r.get("extra_captures"):
        f.append("mid_captured_by_if")
    if r.get("second_exit_perm"):
        f.append("second_exit_other_perm")
    for st in r.get("chain", []):
        if isinstance(st, dict):
            if st.get("side"):
                f.append(f"{st['op']}:{st['side']}")
            elif st["op"] in graphgen.NON_MEMBERS:
                f.append("nonmember")
        elif st == "MaxTensor":
            f.append("Max:full_const")
    if r.get("t") in ("in_function", "in_if") and not r.get("chain"):
        f.append("empty_chain")
    if "perm1" in r and "perm2" in r and graphgen.inverse(r["perm1"]) != r["perm2"]:
        f.append("noninverse")
    shp = r.get("shape") or r.get("shape_a") or []
    if any(isinstance(d, str) for d in shp):
        f.append("symbolic")
    for k in ("variant", "sigmoid_is_output", "sigmoid_second_consumer", "sigmoid_captured_by_if", "rsqrt_is_output", "rsqrt_second_consumer", "rsqrt_captured_by_if", "sqrt_captured_by_if", "reshape_is_output", "second_inverse", "odd_perm_at", "scale_const", "not_is_output", "mask_out", "input_is_output", "unused_fn_input", "outer_also_transposed"):
        v = r.get(k)
        if v not in (None, False, "plain"):
            f.append(k if isinstance(v, bool) else f"{k}={v}")
    return ",".join(sorted(set(f))) or "plain"


def enumerate_cases(tier: str, seed: int) -> list[dict[str, Any]]:
    n = 700 if tier == "quick" else 12000
    cases = []
    for r in graphgen.recipes(n, seed):
        cases.append({"key": f"gen:{r['id']}", "src": "gen", "recipe": r, "cost": 0.2})
    per_family: dict[str, int] = {}
    for tp in registry.corpus():
        if registry.is_heavy(tp):
            continue
        if tier == "quick":
            if tp["_dp"]:
                continue
            n_ = per_family.get(tp["_family"], 0)
            per_family[tp["_family"]] = n_ + 1
            if n_ >= 1:
                continue
        cases.append({"key": f"reg:{tp['_pid']}", "src": "registry", "pid": tp["_pid"], "cost": 1.0})
    return recs.only_filter(cases)


def _feeds_for(model: onnx.ModelProto, rng: np.random.Generator, n: int = 2) -> list[dict[str, np.ndarray]]:
    init = {t.name for t in model.graph.initializer}
    feeds = []
    for k in range(n):
        binding = {"B": 2 + k, "N": 5 - k, "M": 4 + 2 * k}
        feed = {}
        for vi in model.graph.input:
            if vi.name in init:
                continue
            shp = [d if isinstance(d, int) else binding.get(d, 3) if d is not None else 3 for d in (modelwalk.vi_shape(vi) or [])]
            et = modelwalk.vi_elem_type(vi)
            dt = onnx.helper.tensor_dtype_to_np_dtype(et)
            size = int(np.prod(shp)) if shp else 1
            if dt == np.bool_:
                arr = (np.arange(size) + k) % 2 == 0
            elif np.issubdtype(dt, np.integer):
                info = np.iinfo(dt)
                pool = np.array([0, 1, 2, 3, 100, info.max, info.max - 1, info.min, info.min + 1, -1 if info.min < 0 else 7, 127, 128, 255, 256, 32767, 32768, 65535], dtype=object)
                pool = np.array([int(v) for v in pool if info.min <= int(v) <= info.max], dtype=dt)
                arr = rng.choice(pool, size)
            else:
                pool = np.array([0.0, -0.0, 0.5, -0.5, 1.5, 2.5, -2.5, 3.3, 100.25, -100.25, 1e-3, 70000.0, 16777217.0, 0.1])
                arr = np.where(rng.random(size) < 0.5, rng.choice(pool, size), rng.standard_normal(size))
            feed[vi.name] = np.asarray(arr, dtype=dt).reshape(shp)
        feeds.append(feed)
    return feeds


def _run(model_bytes: bytes, feeds: list[dict[str, np.ndarray]]) -> tuple[list[list[np.ndarray]] | None, str]:
    try:
        m = onnx.load_model_from_string(model_bytes)
        onnx.checker.check_model(m, full_check=True)
    except Exception as exc:  # noqa: BLE001
        return None, f"checker: {str(exc)[:200]}"
    try:
        sess = ortrun.session(model_bytes)
        outs = []
        for f in feeds:
            f2 = {i.name: f[i.name] for i in sess.get_inputs() if i.name in f}
            if len(f2) != len(sess.get_inputs()):
                return None, "feed: input missing"
            outs.append(ortrun.run(sess, f2))
        return outs, ""
    except ortrun.OrtEnvLimit as exc:
        return None, f"env: {exc}"
    except (ortrun.OrtLoadError, ortrun.OrtRunError) as exc:
        return None, f"ort: {str(exc)[:200]}"


def _few_ulps_apart(a: list[np.ndarray], b: list[np.ndarray], ulps: int = 8) -> bool:
    """Same shapes, dtypes and non-finite pattern; floats at most `ulps` units in the last place apart.
    A layout-changing fold hands the same numbers to ORT's vectorised transcendental kernels at other
    flat positions (vector body vs scalar tail): last-place differences are the kernel's, not the pass's."""
    if len(a) != len(b):
        return False
    for x, y in zip(a, b):
        x, y = np.asarray(x), np.asarray(y)
        if x.shape != y.shape or x.dtype != y.dtype:
            return False
        if x.dtype.kind != "f":
            if not np.array_equal(x, y):
                return False
            continue
        fin = np.isfinite(x)
        if not np.array_equal(fin, np.isfinite(y)) or not np.array_equal(x[~fin], y[~fin], equal_nan=True):
            return False
        spacing = np.spacing(np.maximum(np.abs(x[fin]), np.abs(y[fin])).astype(x.dtype)).astype(np.float64)
        if np.any(np.abs(x[fin].astype(np.float64) - y[fin].astype(np.float64)) > ulps * spacing):
            return False
    return True


def _same(pre: list[list[np.ndarray]], post: list[list[np.ndarray]], tolerant: bool) -> oracle.Cmp:
    for a, b in zip(pre, post):
        c = oracle.compare(a, b, exact=not tolerant, int_widening_ok=False)
        if not c.ok and not tolerant and _few_ulps_apart(a, b):
            c = oracle.Cmp(True)
        if c.ok:
            # dtype must be identical, not only the class
            for i, (x, y) in enumerate(zip(a, b)):
                if np.asarray(x).dtype != np.asarray(y).dtype:
                    return oracle.Cmp(False, "dtype", f"output {i}: element type {np.asarray(y).dtype} vs {np.asarray(x).dtype} before the pass")
        if not c.ok:
            return c
    return oracle.Cmp(True)


def _io_sig(model_bytes: bytes) -> tuple[list[str], list[str]]:
    m = onnx.load_model_from_string(model_bytes)
    init = {t.name for t in m.graph.initializer}
    return [i.name for i in m.graph.input if i.name not in init], [o.name for o in m.graph.output]


def _attribute(events: list[interpose.PassEvent], pre_outs, feeds, rec) -> tuple[str, oracle.Cmp | None, str]:
    """First pass after which the serialised model computes something else / is broken."""
    for ev in events:
        if not ev.changed:
            continue
        outs, why = _run(ev.after, feeds)
        if outs is None:
            if why.startswith("env"):
                continue
            return ev.name, None, why
        c = _same(pre_outs, outs, ev.name in REASSOCIATING)
        if not c.ok:
            return ev.name, c, c.text
    return "optimize_graph", None, "difference only visible after the whole pipeline"


def _gen_case(case: dict[str, Any], seed: int) -> dict[str, Any]:
    import onnx_ir as ir
    from jax2onnx.converter import ir_optimizations as iro

    r = case["recipe"]
    rec: dict[str, Any] = {"evals": 0, "nontrivial": [], "violations": [], "obs": {}}
    try:
        model = graphgen.build(r)
    except Exception as exc:  # noqa: BLE001
        return {"status": "skipped", "reason": "recipe_does_not_build_a_typed_graph", "detail": str(exc)[:150]}
    rng = np.random.default_rng([seed, stable_hash(case["key"]) % 2**31])
    feeds = _feeds_for(model, rng)
    pre_bytes = model.SerializeToString()
    pre_outs, why = _run(pre_bytes, feeds)
    if pre_outs is None:
        return {"status": "skipped", "reason": "pre_model_not_valid(" + why.split(":")[0] + ")", "detail": why}
    irm = ir.from_proto(model)
    with interpose.pass_monitor() as mon:
        try:
            iro.optimize_graph(irm)
        except Exception as exc:  # noqa: BLE001
            rec["evals"] = 1
            rec["obs"]["optimizer_raised_on_valid_graph"] = 1
            rec["status"] = "held"  # raising is loud (C16 covers the policy)
            rec["sample"] = {"recipe": r["id"], "optimizer_raised": f"{type(exc).__name__}: {str(exc)[:120]}"}
            return rec
    post_bytes = ir.to_proto(irm).SerializeToString()
    rec["evals"] = 1
    changed = [ev.name for ev in mon.events if ev.changed]
    rec["obs"]["passes_observed"] = len(mon.events)
    for nm in set(changed):
        rec["obs"][f"pass_changed_graph:{nm}"] = 1
    # the first event's 'before' is the ir round trip of the pre model
    if changed:
        rec["nontrivial"] += [f"{nm}|{r['id']}" for nm in sorted(set(changed))]
    feat = features(r)
    post_outs, why = _run(post_bytes, feeds)
    pre_in, pre_out = _io_sig(pre_bytes)
    post_in, post_out = _io_sig(post_bytes)
    fam_tmpl = r["t"]
    problem = None
    if post_outs is None and not why.startswith("env"):
        culprit, c, txt = _attribute(mon.events, pre_outs, feeds, rec)
        problem = (culprit, "pass_breaks_model", f"valid before, after the optimizer: {why}")
    elif post_outs is not None:
        if len(post_out) != len(pre_out):
            problem = ("optimize_graph", "pass_changes_output_count", f"{len(pre_out)} outputs before, {len(post_out)} after")
        else:
            c = _same(pre_outs, post_outs, bool(set(changed) & REASSOCIATING))
            if not c.ok:
                culprit, c2, txt = _attribute(mon.events, pre_outs, feeds, rec)
                problem = (culprit, "pass_changes_" + (c.kind or "value"), c.text)
            elif post_out != pre_out and r["t"] != "dead_and_prune":
                pass  # output names may legitimately be canonicalised by name_fix
        if problem is None and r["t"] == "dead_and_prune":
            want = [n for n in pre_in if n.startswith("in_")]
            if [n for n in post_in if n.startswith("in_")] != want:
                problem = ("prune_unused_graph_inputs", "pass_drops_positional_input", f"inputs {pre_in} -> {post_in}")
    if problem is not None:
        culprit, kind, txt = problem
        rec["violations"].append({"family": f"{culprit}/{fam_tmpl}", "program": r["id"], "kind": kind, "cls": feat, "text": f"{r['id']} [{feat}] pass {culprit}: {txt}"})
    rec["status"] = "violated" if rec["violations"] else "held"
    rec["sample"] = {"recipe": {k: v for k, v in r.items() if k not in ("seed",)}, "passes_that_changed_the_graph": sorted(set(changed)), "features": feat}
    return rec


def _registry_case(case: dict[str, Any], seed: int) -> dict[str, Any]:
    prog = programs.from_registry(registry.by_pid(case["pid"]))
    rec: dict[str, Any] = {"evals": 0, "nontrivial": [], "violations": [], "obs": {}}
    with interpose.pass_monitor() as mon:
        try:
            final = prog.export()
        except Exception as exc:  # noqa: BLE001
            return {"status": "inconclusive", "reason": "export_raises", "detail": str(exc)[:200]}
    if mon.optimize_calls == 0:
        return {"status": "inconclusive", "reason": "optimizer_interposer_not_reached"}
    if registry.randomness(final) != "no":
        return {"status": "skipped", "reason": "nondeterministic_by_construction"}
    rng = np.random.default_rng([seed, stable_hash(case["key"]) % 2**31])
    changed_events = [ev for ev in mon.events if ev.changed]
    rec["obs"]["passes_observed"] = len(mon.events)
    feeds = None
    for ev in changed_events:
        rec["obs"][f"pass_changed_graph:{ev.name}"] = rec["obs"].get(f"pass_changed_graph:{ev.name}", 0) + 1
        try:
            pre_m = onnx.load_model_from_string(ev.before)
        except Exception:  # noqa: BLE001
            continue
        if feeds is None:
            try:
                feeds = _feeds_for_prog(prog, pre_m, rng)
            except Exception:  # noqa: BLE001
                return {"status": "inconclusive", "reason": "cannot_build_feed"}
        pre_outs, why = _run(ev.before, feeds)
        if pre_outs is None:
            rec["obs"]["pre_pass_model_not_valid(not counted)"] = rec["obs"].get("pre_pass_model_not_valid(not counted)", 0) + 1
            continue
        rec["evals"] += 1
        post_outs, why = _run(ev.after, feeds)
        if post_outs is None:
            if why.startswith("env"):
                continue
            rec["violations"].append({"family": f"{ev.name}/in_situ", "program": prog.pid, "kind": "pass_breaks_model", "cls": prog.family, "text": f"{prog.pid}: model valid before pass {ev.name} ({ev.scope}), after it: {why}"})
            continue
        c = _same(pre_outs, post_outs, ev.name in REASSOCIATING)
        if not c.ok:
            rec["violations"].append({"family": f"{ev.name}/in_situ", "program": prog.pid, "kind": "pass_changes_" + (c.kind or "value"), "cls": prog.family, "text": f"{prog.pid}: pass {ev.name} ({ev.scope}) changes the result: {c.text}"})
        else:
            rec["nontrivial"].append(f"{ev.name}|{prog.pid}|{ev.scope}")
    rec["status"] = "violated" if rec["violations"] else "held"
    if changed_events:
        rec["sample"] = {"program": prog.pid, "passes_that_changed_the_graph": [f"{e.name}@{e.scope}" for e in changed_events]}
    return rec


def _feeds_for_prog(prog: programs.Program, model: onnx.ModelProto, rng) -> list[dict[str, np.ndarray]]:
    from vlib import inputs as vin

    sig = prog.signature({s: 2 for s in prog.symbols})
    xs = list(prog.given[0]) if prog.given is not None else vin.draw(sig, "benign", "benign", rng)
    xs = programs.ort_feeds_for(prog, xs)
    init = {t.name for t in model.graph.initializer}
    names = [i for i in model.graph.input if i.name not in init]
    feed: dict[str, np.ndarray] = {}
    it = iter(xs)
    for vi in names:
        if vi.name in prog.params:
            val = np.asarray(prog.params[vi.name])
        else:
            val = np.asarray(next(it))
        dt = onnx.helper.tensor_dtype_to_np_dtype(modelwalk.vi_elem_type(vi))
        if np.iscomplexobj(val) and np.issubdtype(dt, np.floating):
            val = np.stack([val.real, val.imag], -1)
        feed[vi.name] = val.astype(dt)
    return [feed]


def run_case(case: dict[str, Any], tier: str, seed: int) -> dict[str, Any]:
    if case["src"] == "gen":
        return _gen_case(case, seed)
    return _registry_case(case, seed)
