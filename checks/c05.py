"""C05 — model interface mirrors the callable's signature."""

from __future__ import annotations

import re
from typing import Any

import numpy as np
from onnx import TensorProto

from vlib import modelwalk, programs, recs, registry
from vlib.oracle import dtype_class
from vlib.substrate import stable_hash

_IN_RE = re.compile(r"^in_(\d+)(?:_nchw)?$")
PRIMES_A = [2, 3, 5, 7]
PRIMES_B = [11, 13, 17, 19]

_NP2ONNX = {
    "bool": TensorProto.BOOL,
    "int8": TensorProto.INT8,
    "int16": TensorProto.INT16,
    "int32": TensorProto.INT32,
    "int64": TensorProto.INT64,
    "uint8": TensorProto.UINT8,
    "uint16": TensorProto.UINT16,
    "uint32": TensorProto.UINT32,
    "uint64": TensorProto.UINT64,
    "float16": TensorProto.FLOAT16,
    "bfloat16": TensorProto.BFLOAT16,
    "float32": TensorProto.FLOAT,
    "float64": TensorProto.DOUBLE,
}
_FLOATS = {TensorProto.FLOAT16, TensorProto.BFLOAT16, TensorProto.FLOAT, TensorProto.DOUBLE}
_INTS = {
    TensorProto.INT8,
    TensorProto.INT16,
    TensorProto.INT32,
    TensorProto.INT64,
    TensorProto.UINT8,
    TensorProto.UINT16,
    TensorProto.UINT32,
    TensorProto.UINT64,
}


def _onnx_class(e: int | None) -> str:
    if e == TensorProto.BOOL:
        return "bool"
    if e in _INTS:
        return "int"
    if e in _FLOATS:
        return "float"
    return "other"


# ----------------------------------------------------------------------------
# interface stress programs
# ----------------------------------------------------------------------------


def _stress_programs() -> dict[str, dict[str, Any]]:
    import jax
    import jax.numpy as jnp

    f32 = np.float32
    P: dict[str, dict[str, Any]] = {}

    def add(name, fn, specs, sig):
        P[name] = {"fn": fn, "specs": specs, "sig": sig}

    add("unused_first", lambda a, b, c: b * c, [(3,), (3,), (3,)], [((3,), f32)] * 3)
    add("unused_middle", lambda a, b, c: a - c, [(3,), (2, 2), (3,)], [((3,), f32), ((2, 2), f32), ((3,), f32)])
    add("unused_last", lambda a, b: jnp.tanh(a), [("B", 3), (4,)], [(("B", 3), f32), ((4,), f32)])
    add("all_unused", lambda a, b: jnp.ones((2,), jnp.float32), [(3,), (3,)], [((3,), f32)] * 2)
    add("output_is_input", lambda a, b: (a, a + b), [(3,), (3,)], [((3,), f32)] * 2)
    add("only_inputs_out", lambda a, b: (b, a), [(3,), (2,)], [((3,), f32), ((2,), f32)])
    add("same_value_twice", lambda a: (jnp.sin(a),) * 2, [(3,)], [((3,), f32)])
    add("input_twice", lambda a: (a, a), [(3,)], [((3,), f32)])
    add("constant_outputs", lambda a: (a * 2, jnp.arange(4), jnp.float32(1.5), jnp.array([True, False])), [(3,)], [((3,), f32)])
    add("nested_pytree", lambda a, b: {"z": (a + 1, [b * 2, a - b]), "k": b}, [(3,), (3,)], [((3,), f32)] * 2)
    add("zero_arg", lambda: jnp.arange(6, dtype=jnp.float32).reshape(2, 3), [], [])
    add(
        "mixed_dtypes",
        lambda m, i, u, h: (jnp.where(m, i, -i), u + jnp.uint8(1), h * 2, i.astype(jnp.float32) / 2),
        [
            jax.ShapeDtypeStruct((3,), jnp.bool_),
            jax.ShapeDtypeStruct((3,), jnp.int32),
            jax.ShapeDtypeStruct((3,), jnp.uint8),
            jax.ShapeDtypeStruct((3,), jnp.float16),
        ],
        [((3,), np.bool_), ((3,), np.int32), ((3,), np.uint8), ((3,), np.float16)],
    )
    add(
        "int_results",
        lambda x: (jnp.argmax(x, axis=-1), x.shape[0] * jnp.ones((), jnp.int32), jnp.sum(x > 0), jnp.floor(x).astype(jnp.int32)),
        [("B", 5)],
        [(("B", 5), f32)],
    )
    add("symbolic_two", lambda a, b: (a[:, None, :] + b[None, :, :], jnp.concatenate([a, b], 0).sum(0)), [("B", 3), ("N", 3)], [(("B", 3), f32), (("N", 3), f32)])
    add("explicit_f32_width", lambda a: (a.astype(jnp.float32) * 2, a + 1), [(3,)], [((3,), f32)])
    add("scalar_io", lambda a, b: a * b + 1, [(), ()], [((), f32), ((), f32)])
    add(
        "complex_in_out",
        lambda z: (z * (1 + 2j), jnp.real(z)),
        [jax.ShapeDtypeStruct((3,), jnp.complex64)],
        [((3,), np.complex64)],
    )
    add(
        "thirteen_inputs_some_unused",
        lambda a0, a1, a2, a3, a4, a5, a6, a7, a8, a9, a10, a11, a12: a0 + a3 * a11,
        [(2,)] * 13,
        [((2,), f32)] * 13,
    )
    add(
        "twelve_inputs_last_two_unused",
        lambda *a: a[0] - a[9],
        [(2,)] * 12,
        [((2,), f32)] * 12,
    )
    add("unused_nchw_input", lambda x, y: y * 2, [(2, 4, 4, 3), (3,)], [((2, 4, 4, 3), f32), ((3,), f32)])
    P["unused_nchw_input"]["kw"] = {"inputs_as_nchw": [0]}
    add("nchw_in_and_out", lambda x, y: (x * 2 + y, y), [("B", 4, 5, 3), (3,)], [(("B", 4, 5, 3), f32), ((3,), f32)])
    P["nchw_in_and_out"]["kw"] = {"inputs_as_nchw": [0], "outputs_as_nchw": [0]}
    add("three_outputs_nchw_middle", lambda x, v: (x.sum(axis=(1, 2, 3)), x * 2 + v, v * 3), [(2, 4, 5, 3), (3,)], [((2, 4, 5, 3), f32), ((3,), f32)])
    P["three_outputs_nchw_middle"]["kw"] = {"outputs_as_nchw": [1]}
    add("two_images_nchw_last", lambda x: (x + 1, jnp.tanh(x)[:, :2]), [("B", 4, 5, 3)], [(("B", 4, 5, 3), f32)])
    P["two_images_nchw_last"]["kw"] = {"outputs_as_nchw": [1], "inputs_as_nchw": [0]}
    add("with_param", None, [("B", 4)], [(("B", 4), f32)])
    return P


def _with_param_fn():
    import jax.numpy as jnp

    def f(x, deterministic=True, scale=1.0):
        return jnp.where(deterministic, x * scale, x * 0)

    return f


NAMING = [
    "default",
    "legal",
    "adv_swap",  # in_1 / in_0 swapped
    "adv_internal_out",  # output named like an internal value
    "adv_in_as_out",  # output takes the name of an input
    "adv_duplicate",
    "adv_empty",
    "adv_out_as_in",  # input takes the default name of an output / internal value
]


def enumerate_cases(tier: str, seed: int) -> list[dict[str, Any]]:
    cases: list[dict[str, Any]] = []
    per_family: dict[tuple[str, bool], int] = {}
    for tp in registry.corpus():
        heavy = registry.is_heavy(tp)
        if tier == "quick":
            if heavy:
                continue
            k = (tp["_family"], tp["_dp"])
            n = per_family.get(k, 0)
            per_family[k] = n + 1
            if n >= 2:
                continue
        c = {"key": f"reg:{tp['_pid']}", "src": "registry", "pid": tp["_pid"], "cost": 30.0 if heavy else 1.0}
        if heavy:
            c["timeout"] = 900
        cases.append(c)
    for name in _stress_programs():
        for dp in (False, True):
            for naming in NAMING:
                cases.append({"key": f"stress:{name}#{'f64' if dp else 'f32'}@{naming}", "src": "stress", "name": name, "dp": dp, "naming": naming, "cost": 0.5})
    for dt in ("int64", "uint64", "int32", "uint8", "int8", "int16", "bool", "float64", "float32", "float16"):
        for form in ("np_array", "jax_array", "shape_dtype_struct"):
            for dp in (False, True):
                cases.append({"key": f"specform:{dt}:{form}:dp={int(dp)}", "src": "specform", "dtype": dt, "form": form, "dp": dp, "cost": 0.5})
    return recs.only_filter(cases)


def _specform_case(case: dict[str, Any]) -> dict[str, Any]:
    """The positional input is described by an *example array* / ShapeDtypeStruct of a given dtype: the model must
    declare what JAX sees under the export's own precision setting (floats follow the flag, integers keep the JAX
    type or widen to int64 - never narrower), and accept the example it was exported with."""
    import jax
    import jax.numpy as jnp
    import onnx
    from jax2onnx.user_interface import to_onnx

    rec: dict[str, Any] = {"evals": 0, "nontrivial": [], "violations": [], "obs": {}}
    dt, form, dp = np.dtype(case["dtype"]), case["form"], case["dp"]
    example = (np.arange(6) % 2 == 0).reshape(2, 3) if dt == np.bool_ else (np.arange(6).reshape(2, 3) % 5).astype(dt)
    fn = lambda a: (a + a if dt != np.bool_ else a ^ a, a[:1])  # noqa: E731
    if form == "np_array":
        spec = example
    elif form == "jax_array":
        spec = jnp.asarray(example)  # narrowed by the session's own x64 setting, like any user array
    else:
        spec = jax.ShapeDtypeStruct(example.shape, dt)
    seen_dt = np.dtype(spec.dtype)
    with registry.x64(dp):
        want = [np.dtype(l.dtype) for l in jax.tree_util.tree_leaves(jax.eval_shape(fn, jax.ShapeDtypeStruct(example.shape, jax.dtypes.canonicalize_dtype(seen_dt))))]
        want_in = np.dtype(jax.dtypes.canonicalize_dtype(seen_dt))
    try:
        model = to_onnx(fn, [spec], enable_double_precision=dp)
    except Exception as exc:  # noqa: BLE001
        return {"status": "inconclusive", "reason": "export_raises", "detail": f"{type(exc).__name__}: {str(exc)[:160]}"}
    rec["evals"] = 1
    rec["nontrivial"].append(case["key"])
    fam = "specform/" + case["dtype"]

    def np_of(vi):
        return np.dtype(onnx.helper.tensor_dtype_to_np_dtype(vi.type.tensor_type.elem_type))

    def ok(declared: np.dtype, jaxdt: np.dtype) -> bool:
        if jaxdt.kind == "f":
            return declared == (np.dtype(np.float64) if dp and jaxdt.itemsize >= 4 else (np.dtype(np.float32) if jaxdt.itemsize >= 4 else declared))
        if jaxdt.kind in "iu":
            return declared == jaxdt or declared == np.dtype(np.int64) or (jaxdt.kind == "u" and declared == np.dtype(np.uint64))
        return declared == jaxdt

    ins = [i for i in model.graph.input if i.name not in {t.name for t in model.graph.initializer}]
    if len(ins) != 1:
        rec["violations"].append({"family": fam, "kind": "input_count", "cls": f"{form}:dp={int(dp)}", "text": f"{case['key']}: {len(ins)} graph inputs for one positional argument"})
    else:
        d = np_of(ins[0])
        if not ok(d, want_in):
            rec["violations"].append({"family": fam, "kind": "input_dtype", "cls": f"{form}:dp={int(dp)}", "text": f"{case['key']}: the spec has dtype {seen_dt}, JAX under this export sees {want_in}, the model declares {d}"})
    for k, (o, w) in enumerate(zip(model.graph.output, want)):
        d = np_of(o)
        if not ok(d, w):
            rec["violations"].append({"family": fam, "kind": "output_dtype", "cls": f"{form}:dp={int(dp)}", "text": f"{case['key']}: output {k} is {w} in JAX under this export, the model declares {d}"})
    rec["status"] = "violated" if rec["violations"] else "held"
    rec["sample"] = {"spec_dtype": str(seen_dt), "form": form, "enable_double_precision": dp, "declared_input": str(np_of(ins[0])) if ins else None}
    return rec


# ----------------------------------------------------------------------------
# the rules
# ----------------------------------------------------------------------------


def _eval_shape(fn, sig, params, dp):
    import jax

    with registry.x64(dp):
        sds = [jax.ShapeDtypeStruct(shape, dt) for shape, dt in sig]
        res = jax.eval_shape(lambda *a: fn(*a, **params), *sds)
        return jax.tree_util.tree_leaves(res)


def _bind(sig_sym, binding):
    return [(tuple(binding[d] if isinstance(d, str) else int(d) for d in shp), dt) for shp, dt in sig_sym]


def _perm(shape, perm):
    return [shape[i] for i in perm]


def interface_problems(
    model,
    fn,
    sig_sym: list[tuple[tuple[Any, ...], Any]],
    params: dict[str, Any],
    dp: bool,
    *,
    input_names=None,
    output_names=None,
    inputs_as_nchw=None,
    outputs_as_nchw=None,
) -> tuple[list[dict[str, str]], int]:
    """sig_sym: per positional input (shape with symbol strings, numpy dtype as given by the user)."""
    probs: list[dict[str, str]] = []

    def bad(kind: str, text: str) -> None:
        probs.append({"kind": kind, "text": text})

    symbols: list[str] = []
    for shp, _ in sig_sym:
        for d in shp:
            if isinstance(d, str) and d not in symbols:
                symbols.append(d)
    bA = {s: PRIMES_A[i % 4] for i, s in enumerate(symbols)}
    bB = {s: PRIMES_B[i % 4] for i, s in enumerate(symbols)}
    # the dtype JAX sees for an input spec under the x64 setting
    import jax

    def jax_in_dtype(dt):
        with registry.x64(dp):
            return np.dtype(jax.dtypes.canonicalize_dtype(dt))

    try:
        sigA = [(s, jax_in_dtype(dt)) for s, dt in _bind(sig_sym, bA)]
        sigB = [(s, jax_in_dtype(dt)) for s, dt in _bind(sig_sym, bB)]
        outA = _eval_shape(fn, sigA, params, dp)
        outB = _eval_shape(fn, sigB, params, dp)
    except Exception as exc:  # noqa: BLE001
        return [{"kind": "__inconclusive__", "text": f"jax.eval_shape failed: {type(exc).__name__}: {str(exc)[:200]}"}], 0
    checks = 0
    g = model.graph
    init = {t.name for t in g.initializer}
    ginputs = [vi for vi in g.input if vi.name not in init]
    n_pos = len(sig_sym)
    flag_float = TensorProto.DOUBLE if dp else TensorProto.FLOAT

    # ---- inputs -----------------------------------------------------------
    if len(ginputs) < n_pos:
        bad("input_count", f"{len(ginputs)} graph inputs for {n_pos} positional arguments: {[v.name for v in ginputs]}")
        return probs, checks
    extra = [vi.name for vi in ginputs[n_pos:]]
    for nm in extra:
        if nm not in params:
            bad("input_count", f"extra graph input {nm!r} is neither positional nor an input_params entry")
    for i, vi in enumerate(ginputs[:n_pos]):
        checks += 1
        if input_names is not None:
            if vi.name != input_names[i]:
                bad("input_name", f"positional input {i} is named {vi.name!r}, user asked for {input_names[i]!r}")
        else:
            m = _IN_RE.match(vi.name)
            if output_names is not None and vi.name in output_names and any(o.name == vi.name for o in g.output):
                pass  # the input is itself a result the user named: one value, one name
            elif m is None or int(m.group(1)) != i:
                bad("input_order", f"positional input {i} is named {vi.name!r} (expected in_{i})")
        et = modelwalk.vi_elem_type(vi)
        user_dt = np.dtype(sig_sym[i][1])
        jdt = sigA[i][1]
        is_complex = np.issubdtype(jdt, np.complexfloating)
        jcls = "float" if is_complex else dtype_class(jdt)
        if _onnx_class(et) != jcls:
            bad("input_dtype_class", f"input {i} declared {modelwalk.dtype_name(et)}, argument dtype {jdt}")
        elif jcls == "float":
            allowed = {flag_float, _NP2ONNX.get(jdt.name), _NP2ONNX.get(user_dt.name)}
            if is_complex:
                allowed = {flag_float, TensorProto.FLOAT if jdt == np.complex64 else TensorProto.DOUBLE}
            if et not in allowed:
                bad("input_float_width", f"input {i} declared {modelwalk.dtype_name(et)}; flag implies {modelwalk.dtype_name(flag_float)}, argument is {jdt}")
        elif jcls == "int":
            if et not in (_NP2ONNX.get(jdt.name), _NP2ONNX.get(user_dt.name), TensorProto.INT64):
                bad("input_int_type", f"input {i} declared {modelwalk.dtype_name(et)}, argument dtype {jdt}")
        shp = modelwalk.vi_shape(vi)
        exp = list(sig_sym[i][0]) + ([2] if is_complex else [])
        if inputs_as_nchw and i in inputs_as_nchw and len(exp) == 4:
            exp = _perm(exp, programs.NHWC_TO_NCHW)
        if shp is None or len(shp) != len(exp):
            bad("input_rank", f"input {i} declared shape {shp}, argument shape {exp}")
        else:
            for ax, (d, e) in enumerate(zip(shp, exp)):
                if isinstance(e, int):
                    if d != e:
                        bad("input_static_dim", f"input {i} axis {ax} declared {d!r}, argument has {e}")
                else:
                    if d != e:
                        bad("input_symbol_name", f"input {i} axis {ax} declared {d!r}, user symbol is {e!r}")

    # ---- outputs ----------------------------------------------------------
    gout = list(g.output)
    if len(gout) != len(outA):
        bad("output_count", f"{len(gout)} graph outputs for {len(outA)} result leaves")
        return probs, checks
    names_seen: dict[str, int] = {}
    for i, (vi, a, b) in enumerate(zip(gout, outA, outB)):
        checks += 1
        if output_names is not None and vi.name != output_names[i]:
            bad("output_name", f"output {i} is named {vi.name!r}, user asked for {output_names[i]!r}")
        names_seen[vi.name] = names_seen.get(vi.name, 0) + 1
        et = modelwalk.vi_elem_type(vi)
        jdt = np.dtype(a.dtype)
        is_complex = np.issubdtype(jdt, np.complexfloating)
        jcls = "float" if is_complex else dtype_class(jdt)
        if _onnx_class(et) != jcls:
            bad("output_dtype_class", f"output {i} declared {modelwalk.dtype_name(et)}, JAX result dtype {jdt}")
        elif jcls == "float":
            jw = (TensorProto.FLOAT if jdt == np.complex64 else TensorProto.DOUBLE) if is_complex else _NP2ONNX.get(jdt.name)
            if et not in (flag_float, jw):
                bad("output_float_width", f"output {i} declared {modelwalk.dtype_name(et)}; flag implies {modelwalk.dtype_name(flag_float)}, JAX reports {jdt}")
        elif jcls == "int":
            if et not in (_NP2ONNX.get(jdt.name), TensorProto.INT64):
                bad("output_int_type", f"output {i} declared {modelwalk.dtype_name(et)}, JAX result dtype {jdt}")
        shp = modelwalk.vi_shape(vi)
        ea = list(a.shape) + ([2] if is_complex else [])
        eb = list(b.shape) + ([2] if is_complex else [])
        if outputs_as_nchw and i in outputs_as_nchw and len(ea) == 4:
            ea, eb = _perm(ea, programs.NHWC_TO_NCHW), _perm(eb, programs.NHWC_TO_NCHW)
        if shp is None:
            continue  # the model may say less
        if len(shp) != len(ea):
            bad("output_rank", f"output {i} declared shape {shp}, JAX result shape {tuple(a.shape)}")
            continue
        for ax, (d, x, y) in enumerate(zip(shp, ea, eb)):
            if isinstance(d, int):
                if x == y and d != x:
                    bad("output_static_dim", f"output {i} axis {ax} declared {d}, JAX result has {x}")
                elif x != y:
                    bad("output_static_dim", f"output {i} axis {ax} declared the constant {d}, JAX extent depends on the symbols ({x} vs {y})")
    # names unique among graph inputs/outputs (a value returned twice legitimately repeats)
    in_names = [vi.name for vi in ginputs]
    if len(set(in_names)) != len(in_names):
        bad("name_collision", f"graph input names not unique: {in_names}")
    return probs, checks


# ----------------------------------------------------------------------------


def _names_for(naming: str, n_in: int, n_out: int, model_default, rng) -> tuple[Any, Any, bool]:
    """returns (input_names, output_names, adversarial)"""
    if naming == "default":
        return None, None, False
    if naming == "legal":
        return [f"arg_{i}_{rng.integers(1000)}" for i in range(n_in)], [f"res_{i}_{rng.integers(1000)}" for i in range(n_out)], False
    din = [vi.name for vi in model_default.graph.input]
    dout = [vi.name for vi in model_default.graph.output]
    internal = [o for n in model_default.graph.node for o in n.output if o and o not in dout]
    inits = [t.name for t in model_default.graph.initializer]
    if naming == "adv_swap":
        if n_in < 2:
            return None, None, True
        nm = [f"in_{i}" for i in range(n_in)]
        nm[0], nm[1] = nm[1], nm[0]
        return nm, None, True
    if naming == "adv_internal_out":
        pool = internal + inits
        if not pool or n_out == 0:
            return None, None, True
        return None, [pool[0]] + [f"r{i}" for i in range(1, n_out)], True
    if naming == "adv_in_as_out":
        if not din or n_out == 0:
            return None, None, True
        return None, [din[-1]] + [f"r{i}" for i in range(1, n_out)], True
    if naming == "adv_duplicate":
        if n_out >= 2:
            return None, ["same"] * n_out, True
        if n_in >= 2:
            return ["same"] * n_in, None, True
        return None, None, True
    if naming == "adv_empty":
        if n_in:
            return [""] + [f"a{i}" for i in range(1, n_in)], None, True
        return None, [" "] * max(n_out, 1), True
    if naming == "adv_out_as_in":
        pool = [o for o in dout if o not in din] + internal + inits
        if not pool or n_in == 0:
            return None, None, True
        return [pool[0]] + [f"a{i}" for i in range(1, n_in)], None, True
    raise ValueError(naming)


def run_case(case: dict[str, Any], tier: str, seed: int) -> dict[str, Any]:
    if case["src"] == "specform":
        return _specform_case(case)
    from jax2onnx.user_interface import to_onnx

    rec: dict[str, Any] = {"evals": 0, "nontrivial": [], "violations": [], "obs": {}}
    if case["src"] == "registry":
        tp = registry.by_pid(case["pid"])
        prog = programs.from_registry(tp)
        try:
            model = prog.export()
        except Exception as exc:  # noqa: BLE001
            return {"status": "inconclusive", "reason": "export_raises", "detail": f"{type(exc).__name__}: {str(exc)[:200]}"}
        # symbolic signature as the user gave it
        shapes = tp.get("input_shapes")
        sig_c = prog.signature({})
        if shapes is not None:
            sig_sym = []
            for (cs, dt), shp in zip(sig_c, shapes):
                shp_t = tuple(shp) if isinstance(shp, (list, tuple)) else (shp,)
                sig_sym.append((shp_t, dt))
        else:
            sig_sym = [(cs, dt) for cs, dt in sig_c]
        probs, n = interface_problems(
            model,
            registry.instantiate(tp),
            sig_sym,
            prog.params,
            prog.dp,
            input_names=prog.kwargs.get("input_names"),
            output_names=prog.kwargs.get("output_names"),
            inputs_as_nchw=prog.kwargs.get("inputs_as_nchw"),
            outputs_as_nchw=prog.kwargs.get("outputs_as_nchw"),
        )
        fam, pid, cfg = prog.family, prog.pid, "own"
    else:
        P = _stress_programs()[case["name"]]
        dp = case["dp"]
        naming = case["naming"]
        fn = P["fn"] if P["fn"] is not None else _with_param_fn()
        params = {"deterministic": True, "scale": np.float32(2.0)} if case["name"] == "with_param" else {}
        rng = np.random.default_rng([seed, stable_hash(case["key"]) % 2**31])
        kw = dict(enable_double_precision=dp)
        kw.update(P.get("kw", {}))
        if params:
            kw["input_params"] = params
        try:
            base = to_onnx(fn, P["specs"], **kw)
        except Exception as exc:  # noqa: BLE001
            return {"status": "inconclusive", "reason": "export_raises", "detail": f"{type(exc).__name__}: {str(exc)[:200]}"}
        n_in = len(P["specs"])
        n_out = len(base.graph.output)
        inn, outn, adversarial = _names_for(naming, n_in, n_out, base, rng)
        if naming != "default" and inn is None and outn is None:
            return {"status": "skipped", "reason": "naming_variant_not_applicable"}
        fam, pid, cfg = f"stress/{case['name']}", case["key"], naming
        try:
            model = to_onnx(fn, P["specs"], input_names=inn, output_names=outn, **kw) if naming != "default" else base
        except (ValueError, TypeError) as exc:
            if adversarial or "custom names" in str(exc).lower():
                rec["evals"] = 1
                rec["obs"]["adversarial_names_rejected"] = 1
                rec["nontrivial"].append(f"{pid}|rejected")
                rec["status"] = "held"
                rec["sample"] = {"program": pid, "naming": naming, "input_names": inn, "output_names": outn, "outcome": f"rejected: {str(exc)[:120]}"}
                return rec
            return {"status": "inconclusive", "reason": "export_raises", "detail": str(exc)[:200]}
        except Exception as exc:  # noqa: BLE001
            return {"status": "inconclusive", "reason": "export_raises", "detail": f"{type(exc).__name__}: {str(exc)[:200]}"}
        sig_sym = [(tuple(s), np.dtype(dt)) for s, dt in P["sig"]]
        probs, n = interface_problems(model, fn, sig_sym, params, dp, input_names=inn, output_names=outn, inputs_as_nchw=P.get("kw", {}).get("inputs_as_nchw"), outputs_as_nchw=P.get("kw", {}).get("outputs_as_nchw"))
        if adversarial:
            # accepted adversarial names must still give a valid, uniquely named model
            rec["obs"]["adversarial_names_accepted"] = 1
            sp = modelwalk.structural_problems(model)
            for p in sp[:3]:
                probs.append({"kind": "name_collision", "text": f"{p['where']}: {p['what']}"})
            from vlib import ortrun

            try:
                ortrun.session(base)
            except Exception:  # noqa: BLE001
                base_loads = False
            else:
                base_loads = True
            try:
                if base_loads:
                    ortrun.session(model)
            except ortrun.OrtLoadError as exc:
                probs.append({"kind": "name_collision", "text": f"ORT refuses the renamed model: {str(exc)[:200]}"})
            except ortrun.OrtEnvLimit:
                pass
    if probs and probs[0]["kind"] == "__inconclusive__":
        return {"status": "inconclusive", "reason": "eval_shape_failed", "detail": probs[0]["text"]}
    rec["evals"] = 1
    rec["obs"]["interface_values_checked"] = n
    if n > 0:
        rec["nontrivial"].append(f"{pid}@{cfg}")
    for p in probs:
        rec["violations"].append({"family": fam, "program": pid, "kind": p["kind"], "cls": cfg, "text": f"{pid}@{cfg}: {p['text']}"})
    rec["status"] = "violated" if probs else "held"
    rec["sample"] = {
        "program": pid,
        "config": cfg,
        "inputs": [(vi.name, modelwalk.dtype_name(modelwalk.vi_elem_type(vi)), modelwalk.vi_shape(vi)) for vi in model.graph.input][:4],
        "outputs": [(vi.name, modelwalk.dtype_name(modelwalk.vi_elem_type(vi)), modelwalk.vi_shape(vi)) for vi in model.graph.output][:4],
    }
    return rec
