"""Light-weight metadata of the checks (no jax import here)."""

_ASSUME = [
    "onnxruntime 1.30 CPU (single thread, graph optimisation disabled) is the execution semantics of an exported model",
    "eager JAX on CPU is the reference semantics of the callable",
    "onnx 1.22 checker / shape inference / schemas are correct",
    "claims are 'held on the executions observed', not proofs",
]


def _m(level, rule, floors, case_timeout=(120, 600), global_timeout=(1500, 14400), **kw):
    d = {
        "level": level,
        "rule": rule,
        "floors": {"quick": {"evaluations": floors[0], "distinct_nontrivial": floors[1]},
                   "thorough": {"evaluations": floors[2], "distinct_nontrivial": floors[3]}},
        "case_timeout": {"quick": case_timeout[0], "thorough": case_timeout[1]},
        "global_timeout": {"quick": global_timeout[0], "thorough": global_timeout[1]},
        "assumptions": list(_ASSUME),
    }
    d.update(kw)
    return d


META = {
    "C01": _m(
        "exploration",
        "cases = registered testcases (quick: first two f32 + first f64 variant per component; thorough: all variants) "
        "+ sentinel programs + generated compositions; each exported once and executed in ORT on class-pure hostile "
        "draws (registry testcases with input_values: their given points only). evaluations = draws compared against "
        "eager JAX; a (program, value class) pair is non-trivial when the export succeeded, ORT ran and >= 1 finite "
        "element was compared; distinct = distinct (program, class) pairs.",
        (1500, 1200, 20000, 10000),
    ),
    "C03": _m(
        "exploration",
        "cases = (registered testcase, configuration) with configuration in {own, opset 21, opset 24, return_mode='ir'} "
        "(quick: first two testcases per component at their own configuration + the other configurations on a 1/8 sample; "
        "thorough: all variants x all configurations) + generated nested programs. Each export is checked by "
        "onnx.checker(full_check), strict shape inference, ORT session construction and the independent scope/SSA/function "
        "walker. evaluations = exports checked; non-trivial = export produced a model with >= 1 node; distinct = (program, configuration).",
        (1200, 1200, 8000, 8000),
    ),
}

_NOTE = ("Trusted base: onnxruntime 1.30 CPU, onnx 1.22 (checker, inference, schemas), numpy/ml_dtypes, eager JAX 0.11 as "
         "reference. Finite exploration: says nothing about programs, inputs or histories the workloads do not produce.")

MANIFEST_TEXT = {
    "C01": {
        "technique": "differential runtime monitor: ORT execution of each export vs eager JAX on class-pure hostile inputs, adaptive numeric oracle",
        "design_ref": "DESIGN.md 2.2-2.4, 3/C01",
        "level_text": "Exploration: every registered component (live from the working tree), sentinel programs for the value-dependent lowerings and generated compositions are exported and executed on hostile value classes; the oracle compares count, shape, dtype class, ints bit-exactly and floats within a tolerance derived from JAX's own measured f32 error and conditioning. Holds only for the executions observed.",
        "level_note": _NOTE,
    },
    "C03": {
        "technique": "artefact invariant monitor: onnx checker(full) + strict inference + ORT load + independent scope/SSA/function-signature walker over every export",
        "design_ref": "DESIGN.md 2.5, 3/C03",
        "level_text": "Exploration: every registered component and generated nested programs are exported under several configurations and each ModelProto is checked by four independent predicates. ORT environment limits (missing kernels, opset > 24) are inconclusive, never violations.",
        "level_note": _NOTE,
    },
}


def _reg(pid, level, rule, floors, technique, design_ref, level_text, **kw):
    META[pid] = _m(level, rule, floors, **kw)
    MANIFEST_TEXT[pid] = {"technique": technique, "design_ref": design_ref, "level_text": level_text, "level_note": _NOTE}


_reg(
    "C05",
    "exploration",
    "cases = registered testcases at their own configuration + 18 interface stress programs (unused / duplicated / constant / "
    "pass-through outputs, nested pytrees, zero-arg, bool/int/uint8/float16/complex inputs, input_params) x {single, double} x 8 "
    "naming configurations (default, legal, 6 adversarial). Each export's graph.input/graph.output is compared with "
    "jax.eval_shape at two prime bindings of the symbols. evaluations = exports examined; non-trivial = >= 1 interface value "
    "checked, or an adversarial naming that was explicitly rejected; distinct = (program, configuration).",
    (1300, 1300, 3000, 3000),
    "artefact invariant monitor: graph.input/graph.output of every export vs jax.eval_shape and the to_onnx arguments",
    "DESIGN.md 3/C05",
    "Exploration over the registry and interface stress programs x naming/precision configurations; rules are those of the statement (count, order, names, dtype class, float width, int widening, rank, static dims, symbol names).",
)

_reg(
    "C09",
    "exploration",
    "cases = registered testcases (single-precision variants: recursive DOUBLE scan of tensors, annotations, Cast/dtype "
    "attributes; double-precision variants whose x64 jaxpr has only float64 floating avals: ORT vs JAX-x64 on float64 draws "
    "incl. values not representable in float32, judged at eps = 2**-30) + 21 constant-provenance sentinel programs "
    "(python / numpy-f64 constants at top level, in cond / fori / while / scan bodies, in an @onnx_function body) in both modes "
    "+ 16 x64-flag histories (initial x64 off/on x flag off/on x {returns, user function raises, unsupported primitive, allclose}). "
    "evaluations = models scanned + draws compared + flag histories; non-trivial = model with >= 1 node scanned, draw with >= 1 "
    "finite element compared, or flag history whose intended outcome happened; distinct by (program, mode/class).",
    (900, 800, 4000, 3500),
    "artefact invariant (recursive element-type scan) + differential monitor vs JAX-x64 at 2**-30 + x64 flag state monitor around calls",
    "DESIGN.md 3/C09",
    "Exploration: every single-precision export is scanned for DOUBLE anywhere; double exports are compared with JAX-x64 at an accuracy "
    "(7.5e-9 relative) that a float32 round trip cannot meet; the process-wide x64 flag is observed around every call.",
)

_reg(
    "C11",
    "exploration",
    "cases = registered testcases (quick: first single-precision testcase per component at opsets {21, 24, 25|26, 27} and its own "
    "pinned opset; thorough: all variants at every opset 21..27, a quarter also at 13/17/20 report-only). For each (program, opset) "
    "the export's declared opset, every node's schema at that opset (existence, attributes, input/output arity), checker(full), strict "
    "inference, ORT load and ORT outputs vs the default-opset export are checked. evaluations = (program, opset) exports examined; "
    "non-trivial = export at an opset other than 23 with >= 1 standard-domain node; distinct = (program, opset). Exports that raise are acceptable and counted.",
    (1500, 1200, 15000, 12000),
    "artefact invariant monitor over opsets: onnx.defs schema lookup at the declared version for every node + checker + strict inference + ORT cross-opset differential",
    "DESIGN.md 3/C11",
    "Exploration over every registered component x opsets 21..27. ORT 1.30 cannot execute opset > 24 fully; for those opsets the numeric part is inconclusive and only schema/checker/inference decide.",
)

_reg(
    "C04",
    "exploration",
    "cases = registered testcases that declare string dimensions + 36 shape-arithmetic programs (flatten, merge/split, outer product, "
    "size-1 broadcasting, concat of B and N, dims used as values incl. products/sums/floordiv/mod, arange/tile/pad/broadcast_to/eye over a "
    "symbol, contraction over a symbol, reductions/scan over a symbolic axis, function boundary with symbolic inputs, layout flags with "
    "symbolic batch, three symbols). Each program is exported once; the model is executed for every point of a binding lattice "
    "(1 symbol: {1,2,3,5,8,13}; 2 symbols: 7 points incl. equal / unequal / size-1; 3 symbols: 9 points; thorough adds primes up to 31 and 64) "
    "and compared with eager JAX on arrays of that size (values and runtime shapes). evaluations = (program, binding) executions compared; "
    "non-trivial = >= 1 finite element compared; distinct = (program, binding).",
    (1200, 1000, 4400, 4400),
    "differential runtime monitor over a lattice of symbol bindings: ORT outputs and runtime shapes vs eager JAX on arrays of the bound size",
    "DESIGN.md 3/C04",
    "Exploration over all registered symbolic-dimension programs and a hand-written shape-arithmetic family; one export, many bindings.",
)

_reg(
    "C12",
    "exploration",
    "cases = 20 hand-written NHWC programs (residual adds, per-channel scale, ReduceMean over H,W, user transposes, Max/Min against "
    "NCHW-shaped operands, pass-through inputs, mixed rank, conv/pool, symbolic batch, add forests; square spatial dims so wrong "
    "permutations still type-check) + registered testcases with a 4-D input + 11 invalid-flag requests. Per program all subsets of "
    "flaggable inputs x all subsets of flaggable outputs are exported (exhaustive per program up to the cap, else sampled and said so) and "
    "ORT(flagged)(NCHW feeds) is compared with the correspondingly transposed ORT(plain)(feeds) on two draws; thorough repeats the "
    "hand-written family with the optimizer disabled. evaluations = flagged exports executed; non-trivial = a flag subset whose flagged "
    "model ran and was compared element-wise, or an invalid request that was rejected; distinct = (program, subset).",
    (250, 200, 1000, 800),
    "differential runtime monitor over flag subsets: ORT(flagged model)(NCHW x) vs NCHW(ORT(plain model)(x))",
    "DESIGN.md 3/C12",
    "Exploration, flag subsets exhaustive per program (up to 16/64 subsets, sampled beyond and recorded).",
)

_reg(
    "C15",
    "exploration",
    "cases = 19 programs with parameter tensors on both sides of the 1 MiB spill threshold (n x n float32 for n in {8,511,512,513,600} "
    "with two different weight sets, several large tensors, large tensors in a loop body / cond branch / function body, float64) exported in "
    "all four modes (proto, ir->proto, file standard reloaded with sidecar, file web reloaded) + 10 sequences of exports to ONE path "
    "(standard->web, web->standard, large->small, small->large, large->different large, ...) + missing directory / PathLike / relative path "
    "/ mutation of a returned ir model; thorough adds 1/6 of the registry. Models are compared by deterministic serialisation after inlining "
    "external data, by initializer bytes and by ORT outputs. evaluations = mode comparisons + sequence steps; non-trivial = a program/sequence "
    "whose file modes were really written and reloaded; distinct = program or sequence (both sides of the threshold are required by the floor).",
    (60, 25, 400, 150),
    "differential monitor over return/file modes and export histories on one path: protobuf equality after external-data resolution, initializer bytes, ORT outputs",
    "DESIGN.md 3/C15",
    "Exploration over return/export modes x parameter sizes on both sides of the spill threshold x sequences of exports to the same path.",
)

_reg(
    "C18",
    "exploration",
    "cases = 9 programs (float, int, bool, complex, multiple outputs, NCHW flags, double precision) x 28 model perturbations (epsilon on one / "
    "all elements at 0.1x, 2x, 10x the allowed deviation; bool flip; int+1; int returned as float+0.4; int32 returned as int64+2**32; NaN/inf; "
    "same-size reshape; extra unit axis; transpose of a square output; dropped / extra / swapped outputs; dtype-only changes; swapped re/im; "
    "scale, sign flip, zeroed element) x tolerance settings. Every perturbed model is executed directly and the harness measures itself "
    "whether it deviates from fn beyond (rtol, atol); the monitored implication is allclose==True => no deviation. evaluations = allclose calls "
    "observed; non-trivial = the perturbed model really deviates by the harness's own measurement; distinct = (program, perturbation, tolerance).",
    (150, 80, 300, 150),
    "oracle-of-the-oracle: allclose verdict vs an independent ORT-vs-fn measurement on systematically perturbed exported models",
    "DESIGN.md 3/C18",
    "Exploration over single-element / shape / count / dtype-class deviations; false mismatches on equivalent models are observations only (the property states soundness).",
)

_reg(
    "C02",
    "exploration",
    "cases = (a) seeded pattern-neighbourhood ONNX graphs over 14 templates aimed at each rewrite rule (transpose pair around an elementwise "
    "chain; Transpose-Reduce-Transpose; Add forests; Reshape pairs; identity Reshape; Cast pairs; Mul*Sigmoid; Mul*Rsqrt; Dropout+Not; "
    "Range->Cast->Cast; dead nodes / orphan transposes / unused inputs; pattern inside an If branch; inside a function body) with varied "
    "permutations (inverse and not), chain operators incl. non-members, side-operand kinds (scalar, vector, full tensor, second input), "
    "intermediates that are also graph outputs or have extra consumers, symbolic dims, opset 21/24 - handed to the real optimize_graph; "
    "(b) in situ: registered exports with a per-pass interposer. Only graphs whose pre-pass model passes the checker and runs in ORT are "
    "counted. ORT(pre) vs ORT(post) on the same feeds: count, dtype, shape, bit-identical values (tolerance only for the ReduceMean "
    "re-association pass). evaluations = valid pre-models executed before/after; non-trivial = a pass really changed the serialised graph; "
    "distinct = (pass, graph).",
    (900, 500, 9000, 5000),
    "differential monitor at a hook: model serialised immediately before and after each optimizer pass, both executed in ORT on the same feeds",
    "DESIGN.md 2.6, 3/C02",
    "Exploration: seeded sampling of a bounded graph grammar around every rewrite rule plus every registered export, per-pass attribution through interposition on ir_optimizations.",
)

_reg(
    "C17",
    "exploration",
    "cases = (1) the decision procedure is asked about every ordered pair of onnx_ir.DataType members; for every accepted (T,U) all bit "
    "patterns of T (<= 16 bit, bool and 4-bit types: exhaustive; 32 bit: exhaustive in 2**24 chunks in thorough, boundary + random in quick; "
    "64 bit: boundary + random, never exhaustive) are pushed through numpy/ml_dtypes casts T->U->T and, for 8/16-bit sources, through ONNX "
    "Runtime's own Cast; (2) 132 x 4 Cast->Cast graphs (all pairs of 12 element types x {plain, intermediate is graph output, two consumers, "
    "captured by an If body}) through the real optimize_graph with ORT before/after; (3) Range(start,limit,delta)->Cast(U)->Cast(i64) graphs "
    "over an integer box (quick [-5,5]^3 x 5 scalings, thorough [-20,20]^3) plus dtype-boundary triples and shape-op chains through the real "
    "remove_redundant_casts_ir, compared with numpy.arange. evaluations = values pushed through a round trip + graphs optimised; non-trivial = "
    "an accepted pair / a folded graph; distinct = (T,U) or graph id.",
    (50000, 150, 1000000, 800),
    "exhaustive value-domain monitor: decision procedure's answer vs brute-force numpy/ml_dtypes and ONNX Runtime Cast round trips; Cast->Cast and Range graphs through the real pass",
    "DESIGN.md 3/C17",
    "Exploration, exhaustive for source types up to 16 bits in quick and up to 32 bits in thorough; 64-bit sources sampled.",
    exhaustive={"thorough": "all bit patterns of every source type up to 32 bits for every accepted intermediate type", "quick": "all bit patterns of every source type up to 16 bits for every accepted intermediate type"},
)

_reg(
    "C16",
    "fault_enumeration",
    "cases = (a) an unsupported zoo of 23 constructs (unregistered primitive at top level / in fori, while, scan bodies / in a cond branch / nested "
    "/ in a function body / in a while condition; 3- and 4-way switch; reverse scan; traced fori bounds; sabotaged plugin lowerings that leave an "
    "output unbound, bind a disconnected value or raise inside a loop / function body; ...): to_onnx must raise, or return a valid model that agrees "
    "with JAX; (b) for each program (registry programs chosen so that every pass has work + NHWC programs with layout flags) every optimizer pass "
    "index k x {fault before, fault after its effect} x {default policy, strict env var, strict argument} (quick: strict modes on a third of the "
    "points) + faults inside the function-body pipeline: default policy must return a valid model (checker, strict inference, ORT load, structural "
    "walker) equivalent to the callable, strict must re-raise the injected exception. evaluations = injected faults actually raised + zoo exports "
    "attempted; non-trivial = the injected fault was raised (interposer counter) and the outcome judged, or the construct was traced and judged; "
    "distinct = (program, k, when, policy) / construct.",
    (400, 300, 5000, 4000),
    "fault injection at pass boundaries of the real optimizer (interposition) + unsupported-construct zoo; validity and differential oracles on what is returned",
    "DESIGN.md 2.6, 3/C16",
    "Fault enumeration: pass indices enumerated completely for every program (before/after each pass); crash points inside a pass are approximated by its boundaries.",
    exhaustive={"quick": "every optimizer pass index x {before, after} for each listed program under the default policy", "thorough": "every optimizer pass index x {before, after} x 3 policies for each listed program"},
)

_reg(
    "C13",
    "fault_enumeration",
    "each worker process is one long history of to_onnx calls; cases = successful conversions of 10 programs (jnp, nnx, linen, equinox, nested "
    "@onnx_function, jax.jit-decorated with inner jit, loop, cond+scan, double precision, layout flags) interleaved with failing calls whose "
    "failure is injected at: user code raising while traced (top level, loop body, cond branch, function body, nested function body; both "
    "precisions); the k-th _patching._resolve call, the k-th apply_patches context entry and the k-th function-plugin patch function while the "
    "patch stack is built (quick: 40 strata each over ~1100 sites, thorough: complete); the k-th lowering call; every optimizer pass index "
    "before/after in strict mode; ir.to_proto, onnx.save_model and post-processing raising. After EVERY call the monitors compare with the "
    "state recorded before the first conversion: inspect.getattr_static snapshot of all attributes of jax*/jaxlib*/flax*/equinox*/optax/einops/"
    "jaxtyping modules and of their classes along the MRO (~135k entries), jax_enable_x64, jax2onnx idle state (_PATCH_STATE, "
    "_IN_FUNCTION_BUILD), pytree leaves of the user models, eager calls of the converted callables and three jit probes. evaluations = calls "
    "in the histories; non-trivial = the call reached patch application (counter) ; distinct = (stage, fault index, program).",
    (250, 200, 2500, 2000),
    "state monitor around every call of fault-injected conversion histories: namespace snapshots (getattr_static along the MRO), config, pytrees, behavioural probes",
    "DESIGN.md 3/C13",
    "Fault enumeration over call boundaries into foreign code while the patch stack is built and over later stages; asynchronous exceptions are outside the fault model.",
)

_reg(
    "C14",
    "exploration",
    "requests = registered testcases covering the history-sensitive mechanisms (transpose-heavy CNNs, add forests, function dedup, loops/conds, "
    "symbolic dims, attention, dropout; quick 40, thorough 400) + 7 hand-written requests (layout flags on an add forest, function dedup with "
    "array captures, nested functions, loops+conds, two symbols, many transposes with several outputs, double-precision constants) + "
    "pattern-neighbourhood graphs pushed through the real optimize_graph (quick 60, thorough 600). Every group of requests is exported in 5 "
    "fresh subprocesses: PYTHONHASHSEED 0 forward order with in-process repetition; 1 reversed order with unrelated succeeding/failing/other-"
    "precision/other-opset conversions interleaved; 2 shuffled order with plugin modules imported in shuffled order; 3 after a long unrelated "
    "history; random hash seed shuffled with repetition. The sha256 of SerializeToString(deterministic=True) must be one value per request. "
    "evaluations = serialisations compared; non-trivial = request exported in >= 2 processes; distinct = request.",
    (300, 80, 3000, 800),
    "history monitor: digests of deterministic serialisations across subprocesses with different PYTHONHASHSEED, plugin import order, repetition and preceding conversion histories",
    "DESIGN.md 3/C14",
    "Exploration over hash seeds {0,1,2,3,random} x history shapes; holds for the requests and histories exercised.",
    max_workers=4,
)

_reg(
    "C19",
    "exploration",
    "cases = (a) every MonkeyPatchSpec of every leaf plugin and every function-plugin patch: original and substitute are obtained exactly as "
    "apply_patches does (make_value(getattr(target, attr))); from inspect.signature(original) a base form and one-step variations are generated "
    "(each optional parameter by keyword / positionally, each required parameter by keyword) and the SUBSTITUTE IS REALLY CALLED with sentinel "
    "arguments whose every use raises a private BaseException: reaching the body proves the form bound, a binding-family TypeError raised at "
    "the call boundary proves it did not; reported only differentially (base binds, base + one parameter does not); (b) 100 one-call programs "
    "exercising a parameter with a non-default value (jnp / jax.nn / lax / nnx / linen): eager JAX first, then to_onnx + ORT vs JAX - outcome "
    "must be agreement or an explicit rejection, never a binding TypeError and never a silently different result. evaluations = call forms "
    "executed + one-call programs; non-trivial = a form accepted by the original's signature that was executed, or a one-call program judged; "
    "distinct = (substitute, form) / program.",
    (900, 700, 900, 700),
    "call-boundary monitor: every installed substitute is called in every call form its original's signature admits (sentinel arguments); single-call exports with non-default values vs eager JAX",
    "DESIGN.md 3/C19",
    "Exploration over all binding specs of the working tree x call forms derived from the installed library's signatures.",
)

_reg(
    "C06",
    "exploration",
    "cases = 60 control-flow programs (cond with bool / int-derived / data-derived predicates, captured constants and tracers, pass-through "
    "branches, tuple operands, nested; two-way switch incl. out-of-range index; while_loop with counter, data-dependent exit, threshold stops, "
    "captured arrays, multiple carries of different rank, float counter, nested, in cond, cond inside, vmapped; fori_loop with static bounds "
    "incl. lower != 0, zero and negative trip count, index used in the body, nested, in a branch; scan with 0/1/2/5 steps with and without xs, "
    "several xs, tuple carries, symbolic length, nested, in cond, cond / while inside, captures, integer xs) each swept over steering inputs "
    "(both predicate values; n in {-3,0,1,2,5,17}; thresholds that stop after 0,1,k iterations; lengths) + unsupported variants (3-way switch, "
    "reverse scan, traced fori bound, @onnx_function in a loop body: must raise or agree) + the registered control-flow testcases. Every loop "
    "is bounded by construction. evaluations = (program, steering input) executions compared with eager JAX; non-trivial = ORT ran and >= 1 "
    "finite element was compared; distinct = (program, steering input).",
    (150, 130, 400, 300),
    "differential runtime monitor over steering inputs: ORT carried values / stacked outputs vs eager JAX for every branch choice and trip count",
    "DESIGN.md 3/C06",
    "Exploration over a hand-written control-flow grammar swept over steering inputs including zero and one iteration.",
)

_reg(
    "C07",
    "exploration",
    "cases = 31 programs built twice from module-level callables - once with @onnx_function (free functions, unique=True, custom namespace/type, "
    "nested three deep, unused inputs, traced flag default, int+float inputs, callable classes and nnx modules with equal / different weights, "
    "differing static fields, differing structure, same instance twice, permuted call order, symbolic batch, vmap, double precision, layout flags) "
    "and once from undecorated twins - plus the registered onnx_functions examples. Oracles: ORT(decorated export) vs eager JAX of the twin on "
    "three value classes; ORT(decorated) vs ORT(undecorated export) on the same feeds; call-node / FunctionProto arity and closedness walk. Two call "
    "sites sharing one definition although they compute different functions would show as a disagreement with JAX. evaluations = executions "
    "compared; non-trivial = a decorated program whose boundaries survived and all comparisons ran (definitions / call nodes are recorded: shared "
    "bodies = calls > definitions); distinct = program.",
    (120, 30, 250, 45),
    "differential runtime monitor: decorated vs undecorated vs eager JAX, plus function-signature walk of the ModelProto",
    "DESIGN.md 3/C07",
    "Exploration over placements of function boundaries and pairs of call sites (same/different instance, weights, static fields, shapes, order).",
)

_reg(
    "C10",
    "exploration",
    "cases = for the first testcase (thorough: three) of every registered component with float input_shapes, T(f) for T in {vmap over a new leading "
    "axis, vmap over a trailing axis, vmap of the first argument only, jit, three nested jits, grad of sum(f), jvp, vjp, checkpoint, vmap of grad, "
    "jit of vmap} (quick: vmap0, jit3, grad + one rotating) + 27 hand-written programs (custom_jvp / custom_vjp with deliberately non-standard "
    "rules under grad/jvp/vmap/jit/scan, remat, hessian diagonal, jacfwd/jacrev, vmap in_axes/out_axes variants, vmap of cond/fori/scan, grads "
    "through where/clip/concatenate/take/cumsum). Whether T(f) is defined is decided by running it in plain JAX first. Outcomes: ORT(to_onnx(T(f))) "
    "agrees with T(f)(x); explicit NotImplementedError (acceptable); any other exception while f alone exports and JAX traces T(f) = internal "
    "error (violation). evaluations = executions compared; non-trivial = (program, T) that agreed or was explicitly rejected; distinct = (program, T).",
    (600, 400, 5000, 3500),
    "differential runtime monitor over transformations: ORT(to_onnx(T(f))) vs T(f)(x) in eager JAX",
    "DESIGN.md 3/C10",
    "Exploration over every registered float component x transformations; the batching / differentiation rules of the substitute primitives are exercised through the real export.",
)

_reg(
    "C08",
    "exploration",
    "cases = registered testcases (two symbol bindings each) + the 60 control-flow programs of C06 at their steering inputs (trip counts 0, 1, k; "
    "both branches) + the 36 shape-arithmetic programs of C04 + the 31 function-boundary programs of C07. For every run: (1) the top-level graph "
    "is re-executed with every annotated value as an extra output; (2) every FunctionProto body is executed as a standalone model fed with the "
    "tensors observed at its call site (recursively); (3) a driver runs If branches (both) and Loop bodies iteration by iteration as standalone "
    "graphs with the captured outer values observed in (1), checks every annotated inner value at every iteration and cross-checks its final "
    "carried values against ORT's own execution of the Loop; declared element type, rank, every concrete dimension and every user symbol (bound "
    "by the inputs of that run) are compared with the runtime tensor; (4) postprocess_ir_model is wrapped: intermediate annotations may only get "
    "weaker (None <= symbolic <= concrete), graph inputs/outputs must not change. evaluations = model runs monitored; non-trivial = >= 1 annotated "
    "intermediate executed; distinct = (program, binding / steering input).",
    (600, 550, 3000, 2500),
    "annotation monitor: every annotated value exposed and executed (top graph, function bodies, Loop/If bodies via a body driver); declared dtype/dims vs runtime tensor; pre/post snapshot around post-processing",
    "DESIGN.md 3/C08",
    "Exploration over all values of all exported models x symbol bindings / trip counts; Scan nodes are not driven (counted).",
)
