"""C13 — conversion leaves the host process as it found it.

A worker process is one long history: every case is one more call (succeeding or
failing at an injected point) and the monitors run after *every* call against the
state recorded before the first conversion of the process.
"""

from __future__ import annotations

import contextlib
import os
import tempfile
from typing import Any

import numpy as np

from vlib import interpose, nsmon, recs
from vlib.substrate import stable_hash

_S: dict[str, Any] = {}


class FaultBase(BaseException):
    """An abandonment that is not an Exception (the shape of KeyboardInterrupt, SystemExit, CancelledError)."""


def _exc_cls(name: str | None):
    return {None: Fault, "exception": Fault, "base": FaultBase, "keyboard_interrupt": KeyboardInterrupt, "system_exit": SystemExit, "generator_exit": GeneratorExit}[name]


class Fault(RuntimeError):
    pass


# ----------------------------------------------------------------------------
# programs
# ----------------------------------------------------------------------------


def _programs() -> dict[str, dict[str, Any]]:
    if "programs" in _S:
        return _S["programs"]
    import equinox as eqx
    import flax.linen as nn
    import jax
    import jax.numpy as jnp
    from flax import nnx
    from jax import lax

    from vlib import fnmods

    P: dict[str, dict[str, Any]] = {}
    W = np.linspace(-1, 1, 12).astype(np.float32).reshape(3, 4)
    P["jnp"] = {"fn": lambda x: jnp.tanh(x) @ W + jnp.sum(jnp.reshape(x, (-1,))), "specs": [("B", 3)]}

    class Net(nnx.Module):
        def __init__(self, rngs):
            self.l1 = nnx.Linear(3, 8, rngs=rngs)
            self.bn = nnx.BatchNorm(8, use_running_average=True, rngs=rngs)
            self.l2 = nnx.Linear(8, 2, rngs=rngs)

        def __call__(self, x):
            return self.l2(nnx.gelu(self.bn(self.l1(x))))

    net = Net(nnx.Rngs(0))
    P["nnx"] = {"fn": net, "specs": [("B", 3)], "pytree": lambda: jax.tree_util.tree_leaves(nnx.state(net))}

    class LM(nn.Module):
        @nn.compact
        def __call__(self, x):
            return nn.Dense(4)(nn.relu(nn.Dense(5)(x)))

    lm = LM()
    params = lm.init(jax.random.PRNGKey(0), jnp.ones((1, 3)))
    P["linen"] = {"fn": lambda x: lm.apply(params, x), "specs": [("B", 3)], "pytree": lambda: jax.tree_util.tree_leaves(params)}
    el = eqx.nn.MLP(3, 2, 5, 2, key=jax.random.PRNGKey(1))
    P["eqx"] = {"fn": lambda x: jax.vmap(el)(x), "specs": [(4, 3)], "pytree": lambda: jax.tree_util.tree_leaves(eqx.filter(el, eqx.is_array))}
    P["onnx_function"] = {"fn": fnmods.c13_outer, "specs": [("B", 3)]}

    @jax.jit
    def inner_jit(v):
        return jnp.reshape(v, (-1,)) * 2.0

    @jax.jit
    def outer_jit(x):
        return inner_jit(x).sum() + jnp.tanh(x)

    P["jit"] = {"fn": outer_jit, "specs": [(2, 3)], "probe_inner": inner_jit}
    P["loop"] = {"fn": lambda x: lax.fori_loop(0, 3, lambda i, v: jnp.tanh(v) * 1.1 + x, x), "specs": [(2, 3)]}
    P["cond_scan"] = {"fn": lambda x: lax.cond(jnp.sum(x) > 0, lambda v: lax.scan(lambda c, r: (c + r, c * r), jnp.zeros((3,), v.dtype), v)[1], lambda v: v * 2, x), "specs": [(2, 3)]}
    P["double"] = {"fn": lambda x: jnp.exp(x) * 0.1, "specs": [(2, 3)], "kw": {"enable_double_precision": True}}
    P["nchw"] = {"fn": lambda x: jnp.mean(x, axis=(1, 2), keepdims=True) + x, "specs": [(2, 4, 4, 3)], "kw": {"inputs_as_nchw": [0], "outputs_as_nchw": [0]}}
    inh, inh_ln, ovr, plain_sub = (c(nnx.Rngs(3)) for c in fnmods.C13_USER_CLASSES)
    P["inherited_call_linear"] = {"fn": lambda x: jnp.tanh(inh(x)), "specs": [("B", 3)], "pytree": lambda: jax.tree_util.tree_leaves(nnx.state(inh))}
    P["inherited_call_layernorm"] = {"fn": lambda x: inh_ln(x) + 1.0, "specs": [("B", 3)]}
    P["overriding_call_linear"] = {"fn": lambda x: ovr(x) - 1.0, "specs": [("B", 3)]}
    P["plain_subclass_linear"] = {"fn": lambda x: plain_sub(x) * inh(x), "specs": [("B", 3)]}
    for p in P.values():
        shp = tuple(3 if isinstance(d, str) else d for d in p["specs"][0])
        p["x"] = np.random.default_rng(7).standard_normal(shp).astype(np.float32)
    _S["programs"] = P
    return P


def _jit_probes() -> dict[str, Any]:
    import jax
    import jax.numpy as jnp

    if "probes" not in _S:
        _S["probes"] = {
            "before": jax.jit(lambda x: jnp.reshape(jnp.tanh(x), (-1,)) @ jnp.ones((6,))),
            "after_only": jax.jit(lambda x: jnp.concatenate([x, x * 2], axis=0).sum(axis=0) + jnp.take(x, 1, axis=1).sum()),
            "x": np.arange(6, dtype=np.float32).reshape(2, 3) / 7.0,
        }
    return _S["probes"]


def _eager(fn, x):
    import jax

    return [np.asarray(l) for l in jax.tree_util.tree_leaves(jax.device_get(fn(x)))]


def _prims(fn, x) -> list[str]:
    """Sorted primitive names of the callable's eager jaxpr (what JAX itself traces, outside conversion)."""
    import jax

    def walk(jaxpr, out):
        for e in jaxpr.eqns:
            out.append(e.primitive.name)
            for v in e.params.values():
                for sub in (v if isinstance(v, (list, tuple)) else [v]):
                    inner = getattr(sub, "jaxpr", None)
                    if inner is not None and hasattr(inner, "eqns"):
                        walk(inner, out)
                    elif hasattr(sub, "eqns"):
                        walk(sub, out)
        return out

    return sorted(walk(jax.make_jaxpr(fn)(x).jaxpr, []))


def _user_class_snapshot() -> dict[str, Any]:
    """Attribute resolution of the user's classes."""
    import inspect

    from vlib import fnmods

    snap: dict[str, Any] = {}
    for cls in fnmods.C13_USER_CLASSES:
        for name in dir(cls):
            if name.startswith("__") and name not in ("__call__", "__init__"):
                continue
            try:
                # the raw object found along the MRO ("resolves to the same object"); an own
                # __dict__ entry holding the very object that used to be inherited is not a change
                snap[f"{cls.__name__}.{name}"] = id(inspect.getattr_static(cls, name))
            except Exception:  # noqa: BLE001
                pass
    return snap


def _warm() -> None:
    """State recorded before the first conversion of this process."""
    if "baseline" in _S:
        return
    import logging

    logging.disable(logging.CRITICAL)
    import jax
    from jax2onnx.plugins.plugin_system import import_all_plugins

    import_all_plugins()
    P = _programs()
    pr = _jit_probes()
    expected = {}
    for name, p in P.items():
        if p.get("kw", {}).get("enable_double_precision"):
            continue
        expected[name] = _eager(p["fn"], p["x"])
    _S["expected"] = expected
    _S["jaxpr_prims"] = {name: _prims(P[name]["fn"], P[name]["x"]) for name in expected}
    _S["user_classes"] = _user_class_snapshot()
    _S["pytrees"] = {n: [np.array(l) for l in p["pytree"]()] for n, p in P.items() if "pytree" in p}
    _S["probe_before_expected"] = np.asarray(pr["before"](pr["x"]))
    # natural churn of plain JAX work
    s0 = nsmon.snapshot()
    for name, p in P.items():
        if name in expected:
            _eager(p["fn"], p["x"])
    jax.make_jaxpr(P["jnp"]["fn"])(P["jnp"]["x"])
    s1 = nsmon.snapshot()
    _S["churn"] = nsmon.churn_keys(s0, s1)
    _S["baseline"] = s1
    _S["x64"] = bool(jax.config.jax_enable_x64)
    _S["calls"] = 0


# ----------------------------------------------------------------------------
# fault plans
# ----------------------------------------------------------------------------


@contextlib.contextmanager
def _fault(plan: dict[str, Any], counter: dict[str, int]):
    """Install the injected fault; counter['n'] counts reached injection sites, counter['raised']."""
    kind = plan["kind"]
    if kind == "none":
        yield
        return
    from jax2onnx import user_interface as ui
    from jax2onnx.converter import lowering_dispatch as ld
    from jax2onnx.plugins import _patching as pt
    from jax2onnx.plugins import plugin_system as ps

    k = plan.get("k", 0)

    def counting(orig):
        def w(*a, **kw):
            counter["n"] += 1
            if plan.get("count_only"):
                return orig(*a, **kw)
            if counter["n"] - 1 == k:
                counter["raised"] += 1
                raise _exc_cls(plan.get("exc"))(f"injected at {kind} call {k}")
            return orig(*a, **kw)

        return w

    if kind == "resolve":
        orig = pt._resolve
        pt._resolve = counting(orig)
        try:
            yield
        finally:
            pt._resolve = orig
    elif kind == "apply_patches":
        orig = ps.apply_patches
        ps.apply_patches = counting(orig)
        try:
            yield
        finally:
            ps.apply_patches = orig
    elif kind == "monkey_patch_fn":
        # the k-th patch function of the function-plugin patch loop raises
        orig_iter = ps._iter_patch_specs

        def it():
            for patch_fn, targets, attr in orig_iter():
                yield counting(patch_fn), targets, attr

        ps._iter_patch_specs = it
        try:
            yield
        finally:
            ps._iter_patch_specs = orig_iter
    elif kind == "lower":
        orig = ld.lower_equation_with_plugin
        ld.lower_equation_with_plugin = counting(orig)
        try:
            yield
        finally:
            ld.lower_equation_with_plugin = orig
    elif kind == "optimizer_strict":
        old = os.environ.get("JAX2ONNX_STRICT_OPTIMIZER_FAILURES")
        os.environ["JAX2ONNX_STRICT_OPTIMIZER_FAILURES"] = "1"
        try:
            with interpose.pass_monitor(snapshot=False, fault=(k, plan.get("when", "after"))) as mon:
                yield
                counter["n"] = mon.faults_raised
                counter["raised"] = mon.faults_raised
        finally:
            counter["n"] = max(counter["n"], 1)
            if old is None:
                os.environ.pop("JAX2ONNX_STRICT_OPTIMIZER_FAILURES", None)
            else:
                os.environ["JAX2ONNX_STRICT_OPTIMIZER_FAILURES"] = old
    elif kind == "serialise":
        real = ui.ir

        class Proxy:
            def __getattr__(self, name):
                if name == "to_proto":
                    def boom(*a, **kw):
                        counter["n"] += 1
                        counter["raised"] += 1
                        raise Fault("injected in ir.to_proto")
                    return boom
                return getattr(real, name)

        ui.ir = Proxy()
        try:
            yield
        finally:
            ui.ir = real
    elif kind == "save":
        import onnx as _onnx

        orig = _onnx.save_model

        def boom(*a, **kw):
            counter["n"] += 1
            counter["raised"] += 1
            raise Fault("injected in onnx.save_model")

        ui.onnx.save_model = boom  # same module object: restored below
        try:
            yield
        finally:
            _onnx.save_model = orig
    elif kind == "postprocess":
        orig = ui.postprocess_ir_model

        def boom(*a, **kw):
            counter["n"] += 1
            counter["raised"] += 1
            raise Fault("injected in postprocess_ir_model")

        ui.postprocess_ir_model = boom
        try:
            yield
        finally:
            ui.postprocess_ir_model = orig
    else:
        raise ValueError(kind)


def _trace_raisers(exc: str | None = None) -> dict[str, Any]:
    import jax.numpy as jnp
    from jax import lax

    from vlib import fnmods

    def top(x):
        y = jnp.tanh(x)
        raise _exc_cls(exc)("user function raises while traced (top level)")

    def in_loop(x):
        def body(i, v):
            raise _exc_cls(exc)("user function raises while traced (loop body)")

        return lax.fori_loop(0, 3, body, jnp.tanh(x))

    def in_cond(x):
        def br(v):
            raise _exc_cls(exc)("user function raises while traced (cond branch)")

        return lax.cond(jnp.sum(x) > 0, br, lambda v: v, jnp.reshape(x, (2, 3)))

    return {"function_body_retrace_only": fnmods.c14_gated_failing, "top": top, "loop_body": in_loop, "cond_branch": in_cond, "function_body": fnmods.c13_outer_raising, "nested_function_body": fnmods.c13_outer_nested_raising}


# ----------------------------------------------------------------------------


def enumerate_cases(tier: str, seed: int) -> list[dict[str, Any]]:
    cases: list[dict[str, Any]] = []
    progs = ["jnp", "nnx", "linen", "eqx", "onnx_function", "jit", "loop", "cond_scan", "double", "nchw", "inherited_call_linear", "inherited_call_layernorm", "overriding_call_linear", "plain_subclass_linear"]
    reps = 2 if tier == "quick" else 6
    for r in range(reps):
        for p in progs:
            cases.append({"key": f"ok:{p}#{r}", "prog": p, "plan": {"kind": "none"}, "cost": 1.0})
    for r in range(3 if tier == "quick" else 10):
        for variant in ("plain", "nested", "called_before", "in_function_body"):
            cases.append({"key": f"fresh_jit:{variant}#{r}", "prog": None, "fresh_jit": variant, "plan": {"kind": "none"}, "cost": 1.0})
    for where in ("top", "loop_body", "cond_branch", "function_body", "nested_function_body", "function_body_retrace_only"):
        for dp in (False, True):
            cases.append({"key": f"trace_raise:{where}:dp={int(dp)}", "prog": None, "raiser": where, "dp": dp, "plan": {"kind": "none"}, "cost": 1.0})
    for r in range(2 if tier == "quick" else 6):
        for what in ("class_call", "module_function"):
            cases.append({"key": f"rebind:{what}#{r}", "prog": None, "rebind": what, "plan": {"kind": "none"}, "cost": 1.0})
    # calls abandoned by something that is not an Exception (interrupt, exit, cancellation)
    for where in ("top", "loop_body", "cond_branch"):
        for exc in ("base", "keyboard_interrupt", "system_exit", "generator_exit"):
            for dp in (False, True):
                cases.append({"key": f"trace_abort:{where}:{exc}:dp={int(dp)}", "prog": None, "raiser": where, "exc": exc, "dp": dp, "plan": {"kind": "none"}, "cost": 1.0})
    for kind, ks in (("lower", (0, 3)), ("resolve", (0, 500)), ("apply_patches", (1, 300)), ("monkey_patch_fn", (0, 7))):
        for k in ks:
            for exc in ("base", "keyboard_interrupt"):
                for p in ("double", "onnx_function"):
                    cases.append({"key": f"abort:{kind}:{k}:{exc}:{p}", "prog": p, "plan": {"kind": kind, "k": k, "exc": exc}, "cost": 1.0})
    # patch-stack faults: the index space is measured in the worker (count_only run); here strata
    n_strata = 40 if tier == "quick" else 400
    for kind, total_hint in (("resolve", 1100), ("apply_patches", 1100), ("monkey_patch_fn", 60)):
        ks = sorted(set([0, 1, 2, 3] + [int(v) for v in np.linspace(0, total_hint - 1, n_strata)]))
        if tier == "thorough" and kind != "resolve":
            ks = list(range(total_hint))
        for k in ks:
            for p in ("onnx_function", "nnx") if (k % 2 or kind == "monkey_patch_fn") else ("onnx_function",):
                cases.append({"key": f"patch_fault:{kind}:{k}:{p}", "prog": p, "plan": {"kind": kind, "k": k}, "cost": 1.0})
    for p in ("jnp", "onnx_function", "loop", "nnx"):
        for k in range(12 if tier == "quick" else 40):
            cases.append({"key": f"lower_fault:{p}:{k}", "prog": p, "plan": {"kind": "lower", "k": k}, "cost": 1.0})
    n_pass = len(interpose.pass_names())
    for k in range(n_pass):
        for when in ("before", "after"):
            cases.append({"key": f"optimizer_strict:{k}:{when}", "prog": "nchw" if k % 2 else "onnx_function", "plan": {"kind": "optimizer_strict", "k": k, "when": when}, "cost": 1.0})
    for kind in ("serialise", "save", "postprocess"):
        for p in ("jnp", "nnx", "double"):
            cases.append({"key": f"{kind}_fault:{p}", "prog": p, "plan": {"kind": kind}, "file": kind == "save", "cost": 1.0})
    return recs.only_filter(cases)


def _monitors(case_key: str, prog: str | None, rec: dict[str, Any]) -> None:
    """Everything that must hold after any call of the history."""
    import jax

    def bad(family: str, kind: str, cls: str, text: str) -> None:
        rec["violations"].append({"family": family, "kind": kind, "cls": cls, "text": f"after {case_key}: {text}"})

    # 1. process-wide x64 flag
    now = bool(jax.config.jax_enable_x64)
    if now != _S["x64"]:
        bad("x64_flag", "flag_changed", "x64", f"jax_enable_x64 is {now}, was {_S['x64']}")
        jax.config.update("jax_enable_x64", _S["x64"])
    # 2. library namespaces
    snap = nsmon.snapshot()
    d = nsmon.diff(_S["baseline"], snap, _S["churn"])
    rec["obs"]["namespace_entries_compared"] = len(snap)
    if d:
        bad("namespace", "namespace", d[0].split(" ")[0], "; ".join(d[:6]))
        _S["baseline"] = snap  # re-baseline so the same leak is reported once
    # 3. jax2onnx returned to idle
    for p in nsmon.jax2onnx_idle_problems():
        bad("jax2onnx_idle_state", "idle_state", p.split(" ")[0], p)
    # 4. user pytrees untouched
    P = _programs()
    for name, leaves in _S["pytrees"].items():
        cur = P[name]["pytree"]()
        if len(cur) != len(leaves) or any(np.asarray(a).shape != b.shape or not np.array_equal(np.asarray(a), b) for a, b in zip(cur, leaves)):
            bad("user_pytree", "pytree_mutated", name, f"leaves of the {name} model changed")
    rec["obs"]["user_pytrees_compared"] = len(_S["pytrees"])
    # 5. behavioural probes: the callables behave as before
    names = [prog] if prog in _S["expected"] else []
    h = stable_hash(case_key)
    others = sorted(_S["expected"])
    names.append(others[h % len(others)])
    for name in dict.fromkeys(names):
        try:
            got = _eager(P[name]["fn"], P[name]["x"])
            exp = _S["expected"][name]
            if len(got) != len(exp) or any(a.shape != b.shape or not np.allclose(a, b, rtol=1e-6, atol=1e-6) for a, b in zip(got, exp)):
                bad("behaviour", "probe", f"eager:{name}", f"eager call of the {name} callable returns something else than before")
        except Exception as exc:  # noqa: BLE001
            bad("behaviour", "probe", f"eager:{name}", f"eager call of the {name} callable now raises {type(exc).__name__}: {str(exc)[:150]}")
        rec["obs"]["eager_probes"] = rec["obs"].get("eager_probes", 0) + 1
        try:
            now_prims = _prims(P[name]["fn"], P[name]["x"])
            if now_prims != _S["jaxpr_prims"][name]:
                extra = sorted(set(now_prims) - set(_S["jaxpr_prims"][name]))
                bad("behaviour", "eager_jaxpr", f"eager:{name}", f"JAX traces the {name} callable differently outside conversion (new primitives: {extra[:5]})")
                _S["jaxpr_prims"][name] = now_prims
            rec["obs"]["eager_jaxprs_compared"] = rec["obs"].get("eager_jaxprs_compared", 0) + 1
        except Exception as exc:  # noqa: BLE001
            bad("behaviour", "eager_jaxpr", f"eager:{name}", f"tracing the {name} callable outside conversion now raises {type(exc).__name__}: {str(exc)[:150]}")
    # 6. the user's own classes resolve their attributes as before
    ucs = _user_class_snapshot()
    diffs = [k for k in sorted(set(ucs) | set(_S["user_classes"])) if ucs.get(k) != _S["user_classes"].get(k)]
    rec["obs"]["user_class_attributes_compared"] = len(ucs)
    if diffs:
        bad("user_class", "attribute_changed", diffs[0].split(".")[0], "user class attributes changed: " + ", ".join(diffs[:5]))
        _S["user_classes"] = ucs
    pr = _jit_probes()
    try:
        if not np.allclose(np.asarray(pr["before"](pr["x"])), _S["probe_before_expected"], rtol=1e-6):
            bad("behaviour", "probe", "jit_probe:before", "a jit function compiled before the conversions changed its result")
        a = np.asarray(pr["after_only"](pr["x"]))
        exp = np.concatenate([pr["x"], pr["x"] * 2], 0).sum(0) + pr["x"][:, 1].sum()
        if not np.allclose(a, exp, rtol=1e-5):
            bad("behaviour", "probe", "jit_probe:after_only", "a jit function first called after conversions computes something else")
        inner = P["jit"]["probe_inner"]
        if not np.allclose(np.asarray(inner(P["jit"]["x"])), P["jit"]["x"].reshape(-1) * 2.0, rtol=1e-6):
            bad("behaviour", "probe", "jit_probe:inner", "the inner jit function of the converted program computes something else")
        rec["obs"]["jit_probes"] = rec["obs"].get("jit_probes", 0) + 3
    except Exception as exc:  # noqa: BLE001
        bad("behaviour", "probe", "jit_probe", f"a jit probe raises {type(exc).__name__}: {str(exc)[:150]}")


def _rebind_case(case: dict[str, Any], rec: dict[str, Any]) -> dict[str, Any]:
    """History: export, the user re-binds an attribute jax2onnx patches while tracing (a decorated class's
    __call__, a module-level decorated function), export again.  After the second call the attribute must
    resolve to what the user bound, eager results must be the ones from right before the call, and the
    exported model must compute the re-bound version."""
    import inspect
    import types

    import jax
    import jax.numpy as jnp
    from flax import nnx
    from jax2onnx.user_interface import to_onnx

    from vlib import fnmods, ortrun

    P = _programs()
    x = np.linspace(-1.0, 1.0, 9, dtype=np.float32).reshape(3, 3)
    what = case["rebind"]

    def bad(kind: str, text: str) -> None:
        rec["violations"].append({"family": "user_rebinding", "kind": kind, "cls": what, "text": f"after {case['key']}: {text}"})

    if what == "class_call":
        holder, attr = fnmods.C13OverridingLinear, "__call__"
        model = P["overriding_call_linear"]["fn"]

        def rebound(self, v):
            return nnx.Linear.__call__(self, v) * 3.0 + 1.0
    else:
        holder, attr = fnmods, "c13_leaf"
        model = fnmods.c13_outer
        src = inspect.getattr_static(fnmods, "c13_leaf")
        target = getattr(src, "__wrapped__", None) or getattr(src, "_original", None)

        rebound_plain = types.FunctionType(fnmods._c13_leaf_v2.__code__, fnmods.__dict__, "c13_leaf")
        rebound_plain.__module__ = "vlib.fnmods"
        rebound_plain.__qualname__ = "c13_leaf"
        from jax2onnx import onnx_function

        rebound = onnx_function(rebound_plain)
    original = inspect.getattr_static(holder, attr)
    try:
        to_onnx(model, [("B", 3)])  # first export with the original binding
        setattr(holder, attr, rebound)
        before_obj = inspect.getattr_static(holder, attr)
        eager_before = np.asarray(model(jnp.asarray(x)))
        m2 = to_onnx(model, [("B", 3)])
        rec["evals"] = 2
        after_obj = inspect.getattr_static(holder, attr)
        if after_obj is not before_obj:
            bad("attribute_rebound_by_conversion", f"{getattr(holder, '__name__', holder)}.{attr} resolved to {before_obj!r} before the call and to {after_obj!r} after it")
        eager_after = np.asarray(model(jnp.asarray(x)))
        if not np.allclose(eager_after, eager_before, rtol=1e-6, atol=1e-6):
            bad("eager_changed", "the eager result of the callable changed across the conversion")
        got = np.asarray(ortrun.run_model(m2, [x])[0])
        if not np.allclose(got, eager_before, rtol=1e-4, atol=1e-5):
            bad("exported_stale_definition", "the exported model does not compute the re-bound definition that eager JAX runs")
        rec["nontrivial"].append(case["key"])
        rec["obs"]["rebinding_histories"] = 1
    finally:
        setattr(holder, attr, original)
    _monitors(case["key"], None, rec)
    rec["status"] = "violated" if rec["violations"] else "held"
    rec["sample"] = {"history": ["export", f"re-bind {attr}", "export"], "target": what}
    return rec


def run_case(case: dict[str, Any], tier: str, seed: int) -> dict[str, Any]:
    import jax
    from jax2onnx.user_interface import to_onnx

    _warm()
    rec: dict[str, Any] = {"evals": 0, "nontrivial": [], "violations": [], "obs": {}}
    P = _programs()
    if case.get("rebind"):
        return _rebind_case(case, rec)
    plan = dict(case["plan"])
    counter = {"n": 0, "raised": 0}
    # alternate the process-wide x64 state between calls (restored before the monitors compare)
    fresh = None
    if case.get("fresh_jit"):
        import jax.numpy as jnp

        c = float(_S["calls"] % 7 + 2)
        inner = jax.jit(lambda v: jnp.reshape(v, (-1,)) * c)
        if case["fresh_jit"] == "in_function_body":
            from vlib import fnmods

            helper = jax.jit(lambda v: jnp.tanh(v) * c + jnp.sum(v))
            fnmods.c13_jit_helper = helper
            fresh = helper  # the jit callable that is called eagerly afterwards
            inner = None
            expect = lambda x: np.tanh(x) * c + x.sum()  # noqa: E731
        elif case["fresh_jit"] == "nested":
            fresh = jax.jit(lambda x: inner(x).sum() + jnp.tanh(x) + jnp.take(x, 0, axis=1)[:, None])
            expect = lambda x: (x.reshape(-1) * c).sum() + np.tanh(x) + x[:, :1]  # noqa: E731
        else:
            fresh = jax.jit(lambda x: jnp.reshape(x, (-1,)) * c + jnp.cumsum(jnp.reshape(x, (-1,))))
            expect = lambda x: x.reshape(-1) * c + np.cumsum(x.reshape(-1))  # noqa: E731
        xx = np.arange(6, dtype=np.float32).reshape(2, 3) / 5.0
        if case["fresh_jit"] == "called_before":
            fresh(xx)
        fn, specs, kw = fresh, [(2, 3)], {}
        if case["fresh_jit"] == "in_function_body":
            fn = fnmods.c13_outer_with_jit_in_body
    elif case.get("raiser"):
        fn = _trace_raisers(case.get("exc"))[case["raiser"]]
        specs = [(2, 3)]
        kw: dict[str, Any] = {"enable_double_precision": bool(case.get("dp"))}
    else:
        p = P[case["prog"]]
        fn, specs, kw = p["fn"], p["specs"], dict(p.get("kw", {}))
    tmpd = None
    if case.get("file"):
        tmpd = tempfile.mkdtemp(prefix="c13_")
        kw.update(return_mode="file", output_path=os.path.join(tmpd, "m.onnx"))
    raised = None
    apply_patch_calls = {"n": 0}
    from jax2onnx.plugins import plugin_system as ps

    orig_ap = ps.apply_patches

    def count_ap(*a, **k2):
        apply_patch_calls["n"] += 1
        return orig_ap(*a, **k2)

    try:
        if plan["kind"] != "apply_patches":
            ps.apply_patches = count_ap
        with _fault(plan, counter):
            try:
                to_onnx(fn, specs, **kw)
            except Fault as exc:
                raised = exc
            except interpose.InjectedFault as exc:
                raised = exc
            except Exception as exc:  # noqa: BLE001
                raised = exc
            except (FaultBase, KeyboardInterrupt, SystemExit, GeneratorExit) as exc:
                raised = exc
                rec["obs"]["calls_abandoned_by_non_Exception"] = 1
    finally:
        if ps.apply_patches is count_ap:
            ps.apply_patches = orig_ap
        if tmpd:
            import shutil

            shutil.rmtree(tmpd, ignore_errors=True)
    _S["calls"] += 1
    rec["evals"] = 1
    rec["obs"]["patch_applications_observed"] = apply_patch_calls["n"] if plan["kind"] != "apply_patches" else counter["n"]
    expects_fault = plan["kind"] != "none" or bool(case.get("raiser"))
    if plan["kind"] != "none" and counter["raised"] == 0:
        # index beyond the number of injection sites of this conversion: plain successful call
        rec["obs"]["fault_index_beyond_sites(call succeeded)"] = 1
        rec["obs"][f"sites_seen:{plan['kind']}"] = counter["n"]
    elif expects_fault:
        rec["obs"]["faults_raised"] = 1
        if raised is None:
            rec["obs"]["fault_swallowed(model returned)"] = 1
    reached = apply_patch_calls["n"] > 0 or plan["kind"] == "apply_patches"
    if fresh is not None:
        rec["obs"]["fresh_jit_callables_called_after_their_export"] = 1
        try:
            got = np.asarray(fresh(xx))
            if not np.allclose(got, expect(xx), rtol=1e-5, atol=1e-6):
                rec["violations"].append({"family": "behaviour", "kind": "probe", "cls": f"fresh_jit:{case['fresh_jit']}", "text": f"after {case['key']}: the exported jax.jit callable computes something else when called eagerly"})
            if inner is not None and case["fresh_jit"] == "nested":
                np.asarray(inner(xx))
        except Exception as exc:  # noqa: BLE001
            rec["violations"].append({"family": "behaviour", "kind": "probe", "cls": f"fresh_jit:{case['fresh_jit']}", "text": f"after {case['key']}: eager call of the exported jax.jit callable raises {type(exc).__name__}: {str(exc)[:160]}"})
    _monitors(case["key"], case.get("prog"), rec)
    if reached:
        stage = plan["kind"] if plan["kind"] != "none" else ("trace_raise:" + case["raiser"] if case.get("raiser") else "ok")
        tag = f"{stage}:{plan.get('k', '')}:{plan.get('when', '')}:{plan.get('exc') or case.get('exc') or ''}:{case.get('prog') or case.get('raiser') or case.get('fresh_jit')}:{case['key'].split('#')[-1] if '#' in case['key'] else ''}:{case.get('dp', '')}"
        rec["nontrivial"].append(tag)
    rec["status"] = "violated" if rec["violations"] else "held"
    rec["sample"] = {"call": case["key"], "position_in_process_history": _S["calls"], "raised": (type(raised).__name__ + ": " + str(raised)[:80]) if raised else None, "fault_sites_reached": counter["n"]}
    return rec
