"""C17 — cast elimination removes only value-preserving round trips."""

from __future__ import annotations

import itertools
from typing import Any

import numpy as np
import onnx
from onnx import TensorProto, helper

from vlib import graphgen, ortrun, recs
from vlib.substrate import stable_hash


def _np_dtype(dt) -> Any:
    """numpy / ml_dtypes dtype for an onnx_ir DataType, or None."""
    import ml_dtypes
    import onnx_ir as ir

    m = {
        ir.DataType.BOOL: np.bool_,
        ir.DataType.INT8: np.int8, ir.DataType.INT16: np.int16, ir.DataType.INT32: np.int32, ir.DataType.INT64: np.int64,
        ir.DataType.UINT8: np.uint8, ir.DataType.UINT16: np.uint16, ir.DataType.UINT32: np.uint32, ir.DataType.UINT64: np.uint64,
        ir.DataType.FLOAT16: np.float16, ir.DataType.FLOAT: np.float32, ir.DataType.DOUBLE: np.float64,
        ir.DataType.BFLOAT16: ml_dtypes.bfloat16,
        ir.DataType.COMPLEX64: np.complex64, ir.DataType.COMPLEX128: np.complex128,
    }
    for name, attr in (("INT4", "int4"), ("UINT4", "uint4"), ("FLOAT8E4M3FN", "float8_e4m3fn"), ("FLOAT8E5M2", "float8_e5m2"),
                       ("FLOAT8E4M3FNUZ", "float8_e4m3fnuz"), ("FLOAT8E5M2FNUZ", "float8_e5m2fnuz"), ("INT2", "int2"), ("UINT2", "uint2"),
                       ("FLOAT4E2M1", "float4_e2m1fn"), ("FLOAT8E8M0", "float8_e8m0fnu")):
        if hasattr(ir.DataType, name) and hasattr(ml_dtypes, attr):
            m[getattr(ir.DataType, name)] = getattr(ml_dtypes, attr)
    return m.get(dt)


def _all_types() -> list[Any]:
    import onnx_ir as ir

    return [d for d in ir.DataType if d.name not in ("UNDEFINED",)]


def _bits(npdt) -> int:
    return np.dtype(npdt).itemsize * 8


def _source_values(T, npT, tier: str, chunk: int | None, seed: int) -> tuple[np.ndarray, bool]:
    """(values, exhaustive?)"""
    name = np.dtype(npT).name
    if npT is np.bool_:
        return np.array([False, True]), True
    if name in ("int4", "uint4", "int2", "uint2"):
        info = {"int4": (-8, 7), "uint4": (0, 15), "int2": (-2, 1), "uint2": (0, 3)}[name]
        return np.arange(info[0], info[1] + 1).astype(npT), True
    bits = _bits(npT)
    if np.issubdtype(np.dtype(npT), np.complexfloating):
        base = _source_values(None, np.float32 if npT is np.complex64 else np.float64, "quick", None, seed)[0][:4096]
        return (base + 1j * base[::-1]).astype(npT), False
    u = {8: np.uint8, 16: np.uint16, 32: np.uint32, 64: np.uint64}[bits]
    if bits <= 16:
        return np.arange(2**bits, dtype=np.uint32).astype(u).view(npT), True
    if bits == 32 and chunk is not None:
        lo = chunk << 24
        return (np.arange(lo, lo + (1 << 24), dtype=np.uint64).astype(np.uint32)).view(npT), True
    rng = np.random.default_rng([seed, bits])
    n = 200_000 if tier == "quick" else 5_000_000
    rnd = rng.integers(0, 2**bits, n, dtype=np.uint64).astype(u)
    edge = np.array([0, 1, 2, 2**(bits - 1) - 1, 2**(bits - 1), 2**(bits - 1) + 1, 2**bits - 1, 2**bits - 2], dtype=np.uint64).astype(u)
    near = []
    for k in (7, 8, 11, 15, 16, 24, 31, 32, 53, 63):
        if k < bits:
            near += [2**k - 1, 2**k, 2**k + 1, (2**bits - 2**k) % 2**bits, (2**bits - 2**k - 1) % 2**bits]
    vals = np.concatenate([edge, np.array(near, dtype=np.uint64).astype(u), rnd]).view(npT)
    if np.issubdtype(np.dtype(npT), np.floating):
        fin = np.finfo(npT)
        extra = np.array([0.0, -0.0, fin.tiny, -fin.tiny, fin.smallest_subnormal, -fin.smallest_subnormal, fin.max, -fin.max, 1 + fin.eps, 65504.0, 65520.0, 3.3895314e38, 2.0**-24, 2.0**-25, 2.0**-133, 2.0**-149, np.inf, -np.inf, np.nan], dtype=npT)
        vals = np.concatenate([extra, vals])
    return vals, False


def _roundtrip_equal(v: np.ndarray, back: np.ndarray) -> np.ndarray:
    """Elementwise: same value incl. sign of zero; NaN stays NaN."""
    dt = v.dtype
    if dt == np.bool_ or dt.kind in "iu" or dt.name in ("int4", "uint4", "int2", "uint2"):
        return v == back
    if dt.kind == "c":
        return _roundtrip_equal(v.real, back.real) & _roundtrip_equal(v.imag, back.imag)
    vf, bf = v.astype(np.float64), back.astype(np.float64)
    nan_ok = np.isnan(vf) & np.isnan(bf)
    same = (vf == bf) & (np.signbit(vf) == np.signbit(bf))
    return nan_ok | same


def enumerate_cases(tier: str, seed: int) -> list[dict[str, Any]]:
    cases: list[dict[str, Any]] = []
    types = _all_types()
    for T in types:
        cases.append({"key": f"decide:{T.name}", "src": "decide", "T": T.name, "cost": 3.0})
    if tier == "thorough":
        for T in ("FLOAT", "INT32", "UINT32"):
            for chunk in range(256):
                cases.append({"key": f"decide32:{T}:{chunk}", "src": "decide32", "T": T, "chunk": chunk, "cost": 2.0})
    kinds = ["f32", "f64", "f16", "i8", "i16", "i32", "i64", "u8", "u16", "u32", "u64", "bool"]
    for T, U in itertools.product(kinds, kinds):
        if T == U:
            continue
        for variant in ("plain", "mid_is_output", "two_consumers", "mid_captured_by_if"):
            cases.append({"key": f"graph:{T}>{U}>{T}:{variant}", "src": "graph", "T": T, "U": U, "variant": variant, "cost": 0.3})
    box = 3 if tier == "quick" else 20
    starts = list(range(-box, box + 1))
    for s in starts:
        cases.append({"key": f"range:start={s}", "src": "range", "start": s, "box": box, "cost": 1.0 if tier == "quick" else 6.0})
    cases.append({"key": "range:boundaries", "src": "range_boundary", "cost": 2.0})
    for op in graphgen._RANGE_MIX_OPS:
        cases.append({"key": f"range_mix:{op}", "src": "range_mix", "op": op, "cost": 2.0})
    return recs.only_filter(cases)


def _decide(T, U) -> bool:
    from jax2onnx.converter import ir_optimizations as iro

    return bool(iro._cast_roundtrip_is_value_preserving(int(T), int(U)))


def _decide_case(case: dict[str, Any], tier: str, seed: int) -> dict[str, Any]:
    import onnx_ir as ir

    T = ir.DataType[case["T"]]
    npT = _np_dtype(T)
    rec: dict[str, Any] = {"evals": 0, "nontrivial": [], "violations": [], "obs": {}}
    accepted, rejected = [], []
    for U in _all_types():
        try:
            ok = _decide(T, U)
        except Exception as exc:  # noqa: BLE001
            return {"status": "inconclusive", "reason": "decision_procedure_not_callable", "detail": str(exc)[:200]}
        (accepted if ok else rejected).append(U)
    rec["obs"]["pairs_decided"] = len(accepted) + len(rejected)
    rec["obs"]["pairs_accepted"] = len(accepted)
    rec["obs"]["pairs_rejected"] = len(rejected)
    if npT is None:
        # no executor for this source type: only the identity may be accepted
        for U in accepted:
            if U != T:
                rec["violations"].append({"family": "decision", "kind": "accepted_without_format_knowledge", "cls": f"{T.name}>{U.name}", "text": f"{T.name}->{U.name}->{T.name} accepted although the source format is not modelled"})
        rec["status"] = "violated" if rec["violations"] else "held"
        return rec
    chunk = case.get("chunk")
    vals, exhaustive = _source_values(T, npT, tier, chunk, seed)
    rec["obs"]["source_values_exhaustive" if exhaustive else "source_values_sampled"] = 1
    for U in accepted:
        npU = _np_dtype(U)
        if npU is None:
            rec["violations"].append({"family": "decision", "kind": "accepted_without_format_knowledge", "cls": f"{T.name}>{U.name}", "text": f"{T.name}->{U.name}->{T.name} accepted, intermediate format not modelled by the harness either"})
            continue
        with np.errstate(all="ignore"):
            if np.dtype(npU).kind == "c" and np.dtype(npT).kind != "c":
                mid = vals.astype(np.float64).astype(npU)
                back = mid.real.astype(npT)
            else:
                try:
                    mid = vals.astype(npU)
                    back = mid.astype(npT)
                except TypeError:  # ml_dtypes has no direct cast between two sub-byte types
                    mid = vals.astype(np.int64).astype(npU)
                    back = mid.astype(np.int64).astype(npT)
        ok = _roundtrip_equal(vals, back)
        rec["evals"] += int(vals.size)
        rec["nontrivial"].append(f"{T.name}>{U.name}" + (f"#{chunk}" if chunk is not None else ""))
        if not np.all(ok):
            i = int(np.argmin(ok))
            rec["violations"].append({"family": "decision", "kind": "lossy_pair_accepted", "cls": f"{T.name}>{U.name}", "text": f"{T.name}->{U.name}->{T.name} accepted by the decision procedure but {vals[i]!r} comes back as {back[i]!r} ({int((~ok).sum())} of {vals.size} values differ)"})
    # ORT as a second executor for 8/16-bit sources
    if exhaustive and chunk is None and _bits(npT) <= 16 and np.dtype(npT).name not in ("int4", "uint4", "int2", "uint2"):
        for U in accepted:
            if U == T or _np_dtype(U) is None or np.dtype(_np_dtype(U)).kind == "c":
                continue
            try:
                g = helper.make_graph(
                    [helper.make_node("Cast", ["x"], ["m"], to=int(U)), helper.make_node("Cast", ["m"], ["y"], to=int(T))],
                    "g", [helper.make_tensor_value_info("x", int(T), [vals.size])], [helper.make_tensor_value_info("y", int(T), [vals.size])],
                )
                m = helper.make_model(g, opset_imports=[helper.make_opsetid("", 21)], ir_version=10)
                sess = ortrun.session(m)
                feed = vals if np.dtype(npT).name != "bfloat16" else vals
                got = ortrun.run(sess, {"x": feed})[0]
                got = np.asarray(got).view(npT) if got.dtype != np.dtype(npT) and got.dtype.itemsize == np.dtype(npT).itemsize else np.asarray(got)
                ok = _roundtrip_equal(vals, got.astype(npT))
                rec["obs"]["ort_cast_roundtrips_executed"] = rec["obs"].get("ort_cast_roundtrips_executed", 0) + 1
                rec["evals"] += int(vals.size)
                if not np.all(ok):
                    i = int(np.argmin(ok))
                    rec["violations"].append({"family": "decision", "kind": "lossy_pair_accepted_in_ort", "cls": f"{T.name}>{U.name}", "text": f"{T.name}->{U.name}->{T.name}: ONNX Runtime Cast maps {vals[i]!r} to {got[i]!r}"})
            except (ortrun.OrtEnvLimit, ortrun.OrtLoadError, ortrun.OrtRunError, TypeError, RuntimeError) as exc:
                rec["obs"]["ort_cast_pair_not_executable"] = rec["obs"].get("ort_cast_pair_not_executable", 0) + 1
    rec["status"] = "violated" if rec["violations"] else "held"
    rec["sample"] = {"source": T.name, "accepted_intermediates": [u.name for u in accepted], "values_tested": int(vals.size), "exhaustive": exhaustive}
    return rec


def _optimise(model: onnx.ModelProto) -> onnx.ModelProto:
    import onnx_ir as ir
    from jax2onnx.converter import ir_optimizations as iro

    irm = ir.from_proto(model)
    iro.optimize_graph(irm)
    return ir.to_proto(irm)


def _graph_case(case: dict[str, Any], seed: int) -> dict[str, Any]:
    from checks import c02

    rec: dict[str, Any] = {"evals": 0, "nontrivial": [], "violations": [], "obs": {}}
    r = {"t": "cast_pair", "opset": 21, "seed": 1, "T": case["T"], "U": case["U"], "variant": case["variant"], "n": 64}
    try:
        model = graphgen.build(r)
    except Exception as exc:  # noqa: BLE001
        return {"status": "skipped", "reason": "graph_not_typed", "detail": str(exc)[:100]}
    rng = np.random.default_rng([seed, stable_hash(case["key"]) % 2**31])
    feeds = c02._feeds_for(model, rng, n=3)
    pre, why = c02._run(model.SerializeToString(), feeds)
    if pre is None:
        return {"status": "skipped", "reason": "pre_model_not_valid(" + why.split(":")[0] + ")"}
    post_m = _optimise(model)
    n_cast_pre = sum(1 for n in model.graph.node if n.op_type == "Cast")
    n_cast_post = sum(1 for n in post_m.graph.node if n.op_type == "Cast")
    post, why = c02._run(post_m.SerializeToString(), feeds)
    rec["evals"] = 1
    if n_cast_post < n_cast_pre:
        rec["nontrivial"].append(case["key"])
        rec["obs"]["cast_pairs_folded"] = 1
    else:
        rec["obs"]["cast_pairs_kept"] = 1
    if post is None:
        if not why.startswith("env"):
            rec["violations"].append({"family": "remove_redundant_casts/graph", "kind": "pass_breaks_model", "cls": f"{case['T']}>{case['U']}:{case['variant']}", "text": f"{case['key']}: valid before, after the optimizer: {why}"})
    else:
        c = c02._same(pre, post, False)
        if not c.ok:
            rec["violations"].append({"family": "remove_redundant_casts/graph", "kind": "fold_changes_" + (c.kind or "value"), "cls": f"{case['T']}>{case['U']}:{case['variant']}", "text": f"{case['key']}: {c.text}"})
    rec["status"] = "violated" if rec["violations"] else "held"
    rec["sample"] = {"graph": case["key"], "casts_before": n_cast_pre, "casts_after": n_cast_post}
    return rec


_U_RANGE = {"i8": (-128, 127), "u8": (0, 255), "i16": (-32768, 32767), "u16": (0, 65535), "i32": (-2**31, 2**31 - 1), "bool": (0, 1)}


def _range_fold(T: str, U: str, start: int, limit: int, delta: int, shape_ops: list[str], add: int = 1) -> tuple[bool, onnx.ModelProto]:
    import onnx_ir as ir
    from jax2onnx.converter import ir_optimizations as iro

    r = {"t": "range_cast", "opset": 21, "seed": 1, "T": T, "U": U, "start": start, "limit": limit, "delta": delta, "shape_ops": shape_ops, "add": add}
    model = graphgen.build(r)
    irm = ir.from_proto(model)
    iro.remove_redundant_casts_ir(irm.graph)
    post = ir.to_proto(irm)
    return sum(1 for n in post.graph.node if n.op_type == "Cast") < 2, model


def _range_case(case: dict[str, Any], tier: str, seed: int) -> dict[str, Any]:
    rec: dict[str, Any] = {"evals": 0, "nontrivial": [], "violations": [], "obs": {}}
    triples: list[tuple[int, int, int, str, list[str], int]] = []
    if case["src"] == "range":
        box, s = case["box"], case["start"]
        # scale so that the emitted values straddle the bounds of the narrow types
        for limit in range(-box, box + 1):
            for delta in range(-box, box + 1):
                if delta == 0:
                    continue
                for scale, U in ((1, "bool"), (13, "i8"), (26, "u8"), (1, "u8"), (3300, "i16")):
                    triples.append((s * scale, limit * scale, delta * (scale if (s + limit + delta) % 2 else 1), U, [], 1))
    else:
        for U, (lo, hi) in _U_RANGE.items():
            for start, limit, delta in [(lo, hi + 1, 1), (lo, hi + 2, 1), (lo - 1, hi, 1), (hi, lo - 1, -1), (hi + 1, lo, -1), (hi, lo - 2, -1), (lo, hi + 1, 7), (lo, hi + 8, 7), (0, hi + 1, hi), (0, hi + 2, hi + 1), (hi + 1, hi + 1, 1), (hi + 5, hi + 1, 1), (lo - 5, lo - 5, -1), (0, 10**12, 10**11), (-(10**12), 0, 10**11)]:
                for ops in ([], ["Unsqueeze"], ["Reshape", "Identity"], ["AddOne"]):
                    triples.append((start, limit, delta, U, ops, hi))
    for start, limit, delta, U, ops, add in triples:
        lo, hi = _U_RANGE[U]
        # emitted values start, start+delta, ... strictly on the start side of limit
        n_emit = max(0, -((start - limit) // delta)) if delta > 0 else max(0, -((limit - start) // (-delta)))
        if n_emit <= 4096:
            vals = np.arange(start, limit, delta, dtype=np.int64)
            assert vals.size == n_emit, (start, limit, delta, vals.size, n_emit)
            vmin, vmax = (int(vals.min()), int(vals.max())) if vals.size else (0, -1)
        else:
            first, last = start, start + (n_emit - 1) * delta
            vmin, vmax = min(first, last), max(first, last)
        if "AddOne" in ops and n_emit:
            vmin, vmax = vmin + add, vmax + add
        fits = n_emit == 0 or (vmin >= lo and vmax <= hi)
        if U == "bool" and n_emit:
            fits = vmin >= 0 and vmax <= 1
        try:
            folded, _ = _range_fold("i64", U, start, limit, delta, ops, add)
        except Exception as exc:  # noqa: BLE001
            rec["obs"]["range_graph_not_buildable"] = rec["obs"].get("range_graph_not_buildable", 0) + 1
            continue
        rec["evals"] += 1
        if folded:
            rec["obs"]["range_roundtrips_folded"] = rec["obs"].get("range_roundtrips_folded", 0) + 1
            rec["nontrivial"].append(f"range:{start},{limit},{delta}>{U}{'+'.join(ops)}")
            if not fits:
                rec["violations"].append({"family": "range_proof", "kind": "narrowing_roundtrip_dropped_for_values_that_do_not_fit", "cls": f"i64>{U}" + ("+" + "+".join(ops) if ops else ""),
                                          "text": f"Range({start},{limit},{delta}){ops}->Cast({U})->Cast(i64) folded, emitted values span [{vmin},{vmax}] outside {U} [{lo},{hi}]"})
        else:
            rec["obs"]["range_roundtrips_kept"] = rec["obs"].get("range_roundtrips_kept", 0) + 1
    rec["status"] = "violated" if rec["violations"] else "held"
    rec["sample"] = {"triples_checked": len(triples), "example": list(triples[0][:4]) if triples else None}
    return rec


_MIX_Y = [
    [5, 2**31, -(2**40) - 7, 127, 128], [-129, 32767, 32768, -32769, 65536], [0, 1, 2, 255, 256], [2**31 - 1, -(2**31), -(2**31) - 1, 2**32, 2**62],
    [1, 1, 1, 1, 1], [0, 0, 0, 0, 0], [-1, -2, -3, -4, -5], [2**16 + 3, 2**8 + 1, 2**24 + 1, 2**53 + 1, -(2**53) - 1],
]


def _range_mix_case(case: dict[str, Any], tier: str, seed: int) -> dict[str, Any]:
    """A proven-bounded Range mixed with an *unbounded* operand before the narrowing round trip:
    the optimised graph is run against the unoptimised one on inputs outside the narrow type."""
    from checks import c02

    rec: dict[str, Any] = {"evals": 0, "nontrivial": [], "violations": [], "obs": {}}
    op = case["op"]
    rng = np.random.default_rng([seed, stable_hash(case["key"]) % 2**31])
    extra = [[int(v) for v in rng.choice([-(2**k) - 1 for k in (7, 15, 31, 40)] + [2**k for k in (7, 8, 15, 16, 31, 32, 50)] + [0, 1, 3], 5)] for _ in range(4 if tier == "quick" else 24)]
    for T in ("i64", "i32"):
        for U in ("i8", "u8", "i16", "u16", "i32", "bool", "f32", "f16"):
            if T == U:
                continue
            for pre_ops in ([], ["Unsqueeze"], ["Identity"]):
                if pre_ops == ["Unsqueeze"] and op not in ("AddInput", "MulInput", "MaxInput"):
                    continue
                r = {"t": "range_cast", "opset": 21, "seed": 1, "T": T, "U": U, "start": 0, "limit": 5, "delta": 1, "shape_ops": pre_ops + [op], "n_emit": 5, "big": (2**40 + 7 if T == "i64" else 2**30 + 7)}
                try:
                    model = graphgen.build(r)
                except Exception:  # noqa: BLE001
                    rec["obs"]["graph_not_buildable"] = rec["obs"].get("graph_not_buildable", 0) + 1
                    continue
                npT = np.int64 if T == "i64" else np.int32
                lim = np.iinfo(npT)
                feeds = []
                for ys in _MIX_Y + extra:
                    f = {"x0": np.zeros((1,), npT)}
                    if any(i.name == "y" for i in model.graph.input):
                        f["y"] = np.clip(np.array(ys, dtype=object), lim.min, lim.max).astype(npT)
                    f = {i.name: f.get(i.name, np.zeros((1,), npT)) for i in model.graph.input}
                    feeds.append(f)
                pre, why = c02._run(model.SerializeToString(), feeds)
                if pre is None:
                    rec["obs"]["pre_model_not_runnable"] = rec["obs"].get("pre_model_not_runnable", 0) + 1
                    rec["obs"].setdefault("why", why[:120])
                    continue
                post_m = _optimise(model)
                n_pre = sum(1 for n in model.graph.node if n.op_type == "Cast")
                n_post = sum(1 for n in post_m.graph.node if n.op_type == "Cast")
                post, why = c02._run(post_m.SerializeToString(), feeds)
                rec["evals"] += 1
                cls = f"{T}>{U}:{'+'.join(pre_ops + [op])}"
                if n_post < n_pre:
                    rec["obs"]["mixed_roundtrips_folded"] = rec["obs"].get("mixed_roundtrips_folded", 0) + 1
                else:
                    rec["obs"]["mixed_roundtrips_kept"] = rec["obs"].get("mixed_roundtrips_kept", 0) + 1
                rec["nontrivial"].append(cls + ("|folded" if n_post < n_pre else "|kept"))
                if post is None:
                    if not why.startswith("env"):
                        rec["violations"].append({"family": "range_proof/mixed", "kind": "pass_breaks_model", "cls": cls, "text": f"{cls}: valid before, after the optimizer: {why}"})
                    continue
                c = c02._same(pre, post, False)
                if not c.ok:
                    rec["violations"].append({"family": "range_proof/mixed", "kind": "fold_changes_" + (c.kind or "value"), "cls": cls, "text": f"Range(0,5,1)->{'+'.join(pre_ops + [op])}->Cast({U})->Cast({T}): optimised graph differs from the unoptimised one: {c.text}"})
    rec["status"] = "violated" if rec["violations"] else ("held" if rec["evals"] else "inconclusive")
    if not rec["evals"]:
        rec["reason"] = "no_graph_ran"
    rec["sample"] = {"op": op, "graphs_run": rec["evals"], "feeds_per_graph": len(_MIX_Y) + len(extra)}
    return rec


def run_case(case: dict[str, Any], tier: str, seed: int) -> dict[str, Any]:
    if case["src"] == "range_mix":
        return _range_mix_case(case, tier, seed)
    if case["src"] in ("decide", "decide32"):
        return _decide_case(case, tier, seed)
    if case["src"] == "graph":
        return _graph_case(case, seed)
    return _range_case(case, tier, seed)
