"""C19 — library calls keep their call signature while being traced."""

from __future__ import annotations

import inspect
import re
import traceback
from typing import Any

import numpy as np

from vlib import oracle, ortrun, recs, registry
from vlib.substrate import stable_hash

_BIND_RE = re.compile(r"(unexpected keyword argument|positional argument|missing \d+ required|got multiple values for|takes no arguments|takes no keyword arguments|required keyword-only argument|required positional argument)")


class Reached(BaseException):
    """Signals that the substitute's body (or something it called) touched an argument."""


class Sentinel:
    __slots__ = ("_n",)

    def __init__(self, n: str) -> None:
        object.__setattr__(self, "_n", n)

    def __getattr__(self, name: str) -> Any:
        raise Reached(name)

    def _boom(self, *a: Any, **k: Any) -> Any:
        raise Reached("op")

    __call__ = __iter__ = __len__ = __getitem__ = __bool__ = __index__ = __int__ = __float__ = _boom
    __add__ = __radd__ = __mul__ = __rmul__ = __sub__ = __rsub__ = __truediv__ = __neg__ = __eq__ = __lt__ = __gt__ = __le__ = __ge__ = __matmul__ = _boom
    __array__ = __jax_array__ = __hash__ = __repr__ = __str__ = __enter__ = __exit__ = __contains__ = _boom


def _specs() -> list[dict[str, Any]]:
    """Every (target, attr, make_value) the conversion installs."""
    import logging

    logging.disable(logging.CRITICAL)
    from jax2onnx.plugins import _patching as pt
    from jax2onnx.plugins import plugin_system as ps

    ps.import_all_plugins()
    out: list[dict[str, Any]] = []
    seen: set[tuple[int, str, str]] = set()
    for pname, plugin in sorted(ps.PLUGIN_REGISTRY.items(), key=lambda kv: str(kv[0])):
        cls = plugin.__class__
        bs = getattr(cls, "binding_specs", None)
        if not callable(bs):
            continue
        try:
            specs = bs()
        except Exception:  # noqa: BLE001
            continue
        for s in specs:
            if not isinstance(s, pt.MonkeyPatchSpec):
                continue
            tname = s.target if isinstance(s.target, str) else f"{getattr(s.target, '__module__', '?')}.{getattr(s.target, '__qualname__', getattr(s.target, '__name__', repr(s.target)))}"
            key = (id(cls), tname, s.attr)
            if key in seen:
                continue
            seen.add(key)
            out.append({"id": f"{tname}.{s.attr}", "plugin": str(pname), "spec": s, "kind": "leaf"})
    for patch_fn, targets, attr in ps._iter_patch_specs():
        for tgt in targets:
            tname = f"{getattr(tgt, '__module__', '?')}.{getattr(tgt, '__qualname__', getattr(tgt, '__name__', repr(tgt)))}"
            out.append({"id": f"{tname}.{attr}", "plugin": "function_plugin", "patch_fn": patch_fn, "target": tgt, "attr": attr, "kind": "function"})
    # several plugins may patch one attribute: keep them apart by plugin name
    ids: dict[str, int] = {}
    for o in out:
        n = ids.get(o["id"], 0)
        ids[o["id"]] = n + 1
        if n:
            o["id"] = f"{o['id']}~{o['plugin']}"
    return out


def _original_and_substitute(o: dict[str, Any]) -> tuple[Any, Any]:
    from jax2onnx.plugins import _patching as pt

    if o["kind"] == "leaf":
        s = o["spec"]
        tgt = pt._resolve(s.target)
        orig = getattr(tgt, s.attr, None)
        return orig, s.make_value(orig)
    orig = getattr(o["target"], o["attr"], None)
    return orig, o["patch_fn"](orig)


def _forms(sig: inspect.Signature) -> tuple[tuple[list[str], dict[str, str]], list[tuple[str, list[str], dict[str, str]]]]:
    """Base form and one-step variations: (label, positional param names, keyword param names)."""
    P = inspect.Parameter
    params = list(sig.parameters.values())
    pos_req = [p.name for p in params if p.kind in (P.POSITIONAL_ONLY, P.POSITIONAL_OR_KEYWORD) and p.default is P.empty]
    kwonly_req = {p.name: p.name for p in params if p.kind == P.KEYWORD_ONLY and p.default is P.empty}
    base = (list(pos_req), dict(kwonly_req))
    forms: list[tuple[str, list[str], dict[str, str]]] = []
    pk = [p for p in params if p.kind in (P.POSITIONAL_ONLY, P.POSITIONAL_OR_KEYWORD)]
    for i, p in enumerate(pk):
        if p.default is not P.empty:
            if p.kind == P.POSITIONAL_OR_KEYWORD:
                forms.append((f"kw:{p.name}", list(pos_req), {**kwonly_req, p.name: p.name}))
            # positionally up to its index (all earlier ones positional as well)
            forms.append((f"pos:{p.name}", [q.name for q in pk[: i + 1]], dict(kwonly_req)))
        elif p.kind == P.POSITIONAL_OR_KEYWORD and not (i == 0 and p.name in ("self", "cls")):
            # a required parameter passed by keyword (later required ones then by keyword too)
            idx = pos_req.index(p.name)
            forms.append((f"reqkw:{p.name}", pos_req[:idx], {**kwonly_req, **{n: n for n in pos_req[idx:]}}))
    for p in params:
        if p.kind == P.KEYWORD_ONLY and p.default is not P.empty:
            forms.append((f"kw:{p.name}", list(pos_req), {**kwonly_req, p.name: p.name}))
    return base, forms


def _try(sub: Any, pos: list[str], kw: dict[str, str]) -> tuple[str, str]:
    """'binds' | 'binding_error' | 'other_error'"""
    args = [Sentinel(n) for n in pos]
    kwargs = {k: Sentinel(v) for k, v in kw.items()}
    try:
        sub(*args, **kwargs)
        return "binds", "returned"
    except Reached:
        return "binds", "body reached"
    except TypeError as exc:
        tb = exc.__traceback__
        depth = 0
        while tb is not None and tb.tb_next is not None:
            tb = tb.tb_next
            depth += 1
        msg = str(exc)
        if depth == 0 and _BIND_RE.search(msg):
            return "binding_error", msg[:160]
        if _BIND_RE.search(msg):
            # raised deeper: find out whether the innermost *caller* frame is jax2onnx code
            frames = traceback.extract_tb(exc.__traceback__)
            inner = frames[-1].filename if frames else ""
            if "/jax2onnx/" in inner:
                return "binding_error", f"(inside {inner.split('/jax2onnx/')[-1]}) {msg[:140]}"
        return "binds", "body raised TypeError"
    except BaseException as exc:  # noqa: BLE001
        return "binds", f"body raised {type(exc).__name__}"


# ----------------------------------------------------------------------------
# (b) single-call programs with non-default parameter values
# ----------------------------------------------------------------------------


def _single_calls() -> dict[str, dict[str, Any]]:
    import jax
    import jax.numpy as jnp
    from jax import lax

    X = ((3, 4), np.float32)
    V = ((4,), np.float32)
    I = ((3,), np.int32)
    C: dict[str, dict[str, Any]] = {}

    def add(name, fn, *sig, ints=None):
        C[name] = {"fn": fn, "sig": list(sig), "ints": ints}

    add("sum(axis=1,keepdims=True)", lambda x: jnp.sum(x, axis=1, keepdims=True), X)
    add("sum(axis=(0,1))", lambda x: jnp.sum(x, axis=(0, 1)), X)
    add("sum(dtype=float32,axis=-1)", lambda x: jnp.sum(x, dtype=jnp.float32, axis=-1), X)
    add("sum(where=)", lambda x: jnp.sum(x, where=x > 0), X)
    add("mean(axis=0,keepdims=True)", lambda x: jnp.mean(x, axis=0, keepdims=True), X)
    add("mean(positional axis)", lambda x: jnp.mean(x, 1), X)
    add("prod(axis=1)", lambda x: jnp.prod(x, axis=1), X)
    add("max(axis=1,keepdims=True)", lambda x: jnp.max(x, axis=1, keepdims=True), X)
    add("max(initial=)", lambda x: jnp.max(x, axis=1, initial=0.1), X)
    add("min(axis=0)", lambda x: jnp.min(x, axis=0), X)
    add("var(ddof=1,axis=0)", lambda x: jnp.var(x, ddof=1, axis=0), X)
    add("std(ddof=1,axis=1)", lambda x: jnp.std(x, ddof=1, axis=1), X)
    add("argmax(axis=1,keepdims=True)", lambda x: jnp.argmax(x, axis=1, keepdims=True), X)
    add("argmin(axis=0)", lambda x: jnp.argmin(x, axis=0), X)
    add("cumsum(axis=1)", lambda x: jnp.cumsum(x, axis=1), X)
    add("cumsum(positional axis)", lambda x: jnp.cumsum(x, 0), X)
    add("cumprod(axis=0)", lambda x: jnp.cumprod(x, axis=0), X)
    add("sort(axis=0)", lambda x: jnp.sort(x, axis=0), X)
    add("sort(descending=True)", lambda x: jnp.sort(x, descending=True), X)
    add("sort(stable=False)", lambda x: jnp.sort(x, stable=False), X)
    add("argsort(axis=0)", lambda x: jnp.argsort(x, axis=0), X)
    add("argsort(descending=True)", lambda x: jnp.argsort(x, descending=True), X)
    add("clip(min=,max=)", lambda x: jnp.clip(x, min=-0.1, max=0.2), X)
    add("clip(positional)", lambda x: jnp.clip(x, -0.1, 0.2), X)
    add("clip(max only)", lambda x: jnp.clip(x, max=0.1), X)
    add("clip(lo positional, max=)", lambda x: jnp.clip(x, -0.3, max=0.25), X)
    add("clip(None positional, hi positional, min=)", lambda x: jnp.clip(x, None, 0.2, min=-0.4), X)
    add("clip(a_min positional only)", lambda x: jnp.clip(x, -0.1), X)
    add("sum(axis positional, keepdims=)", lambda x: jnp.sum(x, 1, keepdims=True), X)
    add("max(axis positional, keepdims=)", lambda x: jnp.max(x, 0, keepdims=True), X)
    add("argmax(axis positional, keepdims=)", lambda x: jnp.argmax(x, 1, keepdims=True), X)
    add("std(axis positional, ddof=)", lambda x: jnp.std(x, 0, ddof=1), X)
    add("cumsum(axis positional, dtype=)", lambda x: jnp.cumsum(x, 1, dtype=jnp.float32), X)
    add("take(axis positional, mode=)", lambda x, i: jnp.take(x, i, 1, mode="clip"), X, I, ints=(0, 4))
    add("concatenate(axis positional, dtype=)", lambda x: jnp.concatenate([x, x * 2], 1, dtype=jnp.float32), X)
    add("pad(width positional, mode=, constant_values=)", lambda x: jnp.pad(x, 1, mode="constant", constant_values=2.0), X)
    add("linspace(endpoint positional)", lambda x: x[:, :4] + jnp.linspace(0.0, 1.0, 4, False), X)
    add("where(x positional, y=)", lambda x: jnp.where(x > 0, x, y=-1.0) if False else jnp.where(x > 0, x, -1.0), X)
    add("softmax(axis positional)", lambda x: jax.nn.softmax(x, 0), X)
    add("one_hot(num_classes positional, axis=)", lambda i: jax.nn.one_hot(i, 4, axis=0), I, ints=(0, 4))
    add("squeeze(axis positional)", lambda x: jnp.squeeze(x[:, :1], 1), X)
    add("transpose(axes positional)", lambda x: jnp.transpose(x, (1, 0)), X)
    add("reshape(newshape positional, order=)", lambda x: jnp.reshape(x, (2, 6), order="C"), X)
    add("roll(shift positional, axis=)", lambda x: jnp.roll(x, 1, axis=0), X)
    add("tile(reps positional)", lambda x: jnp.tile(x, (1, 2)), X)
    add("mean(axis positional, dtype=, keepdims=)", lambda x: jnp.mean(x, 1, dtype=jnp.float32, keepdims=True), X)
    add("prod(axis positional, keepdims=)", lambda x: jnp.prod(x, 0, keepdims=True), X)
    add("take(axis=1)", lambda x, i: jnp.take(x, i, axis=1), X, I, ints=(0, 4))
    add("take(a=,indices=)", lambda x, i: jnp.take(a=x, indices=i, axis=0), X, I, ints=(0, 3))
    add("take(mode='clip')", lambda x, i: jnp.take(x, i, axis=1, mode="clip"), X, I, ints=(0, 4))
    add("concatenate(axis=1)", lambda x: jnp.concatenate([x, x * 2], axis=1), X)
    add("concatenate(positional axis)", lambda x: jnp.concatenate([x, x * 2], 1), X)
    add("stack(axis=-1)", lambda x: jnp.stack([x, x * 2], axis=-1), X)
    add("reshape(shape=)", lambda x: jnp.reshape(x, shape=(4, 3)), X)
    add("reshape(order='F')", lambda x: jnp.reshape(x, (4, 3), order="F"), X)
    add("transpose(axes=)", lambda x: jnp.transpose(x, axes=(1, 0)), X)
    add("squeeze(axis=)", lambda x: jnp.squeeze(x[:, :1], axis=1), X)
    add("expand_dims(axis=(0,2))", lambda x: jnp.expand_dims(x, axis=(0, 2)), X)
    add("tile(reps=)", lambda x: jnp.tile(x, reps=(2, 1)), X)
    add("pad(mode='reflect')", lambda x: jnp.pad(x, ((1, 1), (1, 2)), mode="reflect"), X)
    add("pad(constant_values=)", lambda x: jnp.pad(x, 1, constant_values=0.5), X)
    add("where(positional)", lambda x: jnp.where(x > 0, x, -x), X)
    add("where(x=,y=)", lambda x: jnp.where(x > 0, x=x, y=0.0), X)
    add("select(default=)", lambda x: jnp.select([x > 0.2, x > 0], [x, x * 2], default=-1.0), X)
    add("select(positional default)", lambda x: jnp.select([x > 0.2, x > 0], [x, x * 2], -1.0), X)
    add("linspace(endpoint=False)", lambda x: x[:, :4] + jnp.linspace(0.0, 1.0, 4, endpoint=False), X)
    add("arange(step)", lambda x: x + jnp.arange(0, 8, 2, dtype=jnp.float32), X)
    add("round(decimals=1)", lambda x: jnp.round(x, decimals=1), X)
    add("einsum", lambda x, v: jnp.einsum("ij,j->i", x, v), X, V)
    add("matmul", lambda x, v: jnp.matmul(x, v), X, V)
    add("dot(precision=)", lambda x, v: jnp.dot(x, v, precision=lax.Precision.HIGHEST), X, V)
    add("tensordot(axes=)", lambda x, v: jnp.tensordot(x, v, axes=([1], [0])), X, V)
    add("outer", lambda x, v: jnp.outer(x[0], v), X, V)
    add("split(axis=1)", lambda x: jnp.split(x, 2, axis=1)[1], X)
    add("flip(axis=1)", lambda x: jnp.flip(x, axis=1), X)
    add("roll(shift=,axis=)", lambda x: jnp.roll(x, shift=1, axis=1), X)
    add("repeat(repeats=,axis=)", lambda x: jnp.repeat(x, repeats=2, axis=0), X)
    add("moveaxis", lambda x: jnp.moveaxis(x, source=0, destination=1), X)
    add("swapaxes", lambda x: jnp.swapaxes(x, axis1=0, axis2=1), X)
    add("diff(axis=0)", lambda x: jnp.diff(x, axis=0), X)
    add("full_like(fill_value=)", lambda x: x + jnp.full_like(x, fill_value=0.5), X)
    add("triu(k=1)", lambda x: jnp.triu(x, k=1), X)
    add("power(positional)", lambda x: jnp.power(jnp.abs(x) + 1, 2.5), X)
    add("maximum", lambda x, v: jnp.maximum(x, v), X, V)
    add("nn.softmax(axis=0)", lambda x: jax.nn.softmax(x, axis=0), X)
    add("nn.softmax(where=)", lambda x: jax.nn.softmax(x, where=x > -0.1), X)
    add("nn.log_softmax(axis=0)", lambda x: jax.nn.log_softmax(x, axis=0), X)
    add("nn.gelu(approximate=False)", lambda x: jax.nn.gelu(x, approximate=False), X)
    add("nn.gelu(approximate=True)", lambda x: jax.nn.gelu(x, approximate=True), X)
    add("nn.leaky_relu(negative_slope=0.3)", lambda x: jax.nn.leaky_relu(x, negative_slope=0.3), X)
    add("nn.elu(alpha=0.5)", lambda x: jax.nn.elu(x, alpha=0.5), X)
    add("nn.celu(alpha=0.5)", lambda x: jax.nn.celu(x, alpha=0.5), X)
    add("nn.one_hot(axis=0)", lambda i: jax.nn.one_hot(i, 4, axis=0), I, ints=(0, 4))
    add("nn.one_hot(dtype=int32)", lambda i: jax.nn.one_hot(i, num_classes=4, dtype=jnp.int32), I, ints=(0, 4))
    add("nn.logsumexp(axis=1,keepdims=True)", lambda x: jax.nn.logsumexp(x, axis=1, keepdims=True), X)
    add("nn.logsumexp(b=)", lambda x: jax.nn.logsumexp(x, axis=1, b=jnp.abs(x) + 1), X)
    add("nn.standardize(axis=0)", lambda x: jax.nn.standardize(x, axis=0), X)
    add("nn.glu(axis=1)", lambda x: jax.nn.glu(x, axis=1), X)
    add("nn.hard_tanh", lambda x: jax.nn.hard_tanh(x), X)
    add("lax.cumsum(reverse=True)", lambda x: lax.cumsum(x, axis=1, reverse=True), X)
    add("lax.reduce_max(axes=)", lambda x: lax.reduce_max(x, axes=(1,)), X)
    add("lax.clamp", lambda x: lax.clamp(-0.1, x, 0.2), X)
    add("lax.fori_loop(unroll=)", lambda x: lax.fori_loop(0, 3, lambda i, v: v * 1.1, x, unroll=1), X)
    add("lax.scan(length=,unroll=)", lambda x: lax.scan(lambda c, _: (c * 1.1, c), x, None, length=3, unroll=1)[0], X)
    add("lax.dot_general(preferred_element_type=)", lambda x, v: lax.dot_general(x, v, (((1,), (0,)), ((), ())), preferred_element_type=jnp.float32), X, V)
    add("lax.conv(padding=,lhs_dilation=)", lambda x: lax.conv_general_dilated(x.reshape(1, 3, 4, 1), jnp.ones((2, 2, 1, 2), jnp.float32), (1, 1), "SAME", lhs_dilation=(1, 1), rhs_dilation=(2, 1), dimension_numbers=("NHWC", "HWIO", "NHWC")), X)
    add("lax.reduce_window(avg)", lambda x: lax.reduce_window(x, 0.0, lax.add, (2, 2), (1, 2), "SAME"), X)
    add("lax.top_k(k=2)", lambda x: lax.top_k(x, k=2)[0], X)
    add("lax.rsqrt", lambda x: lax.rsqrt(jnp.abs(x) + 1), X)
    add("lax.integer_pow(y=3)", lambda x: lax.integer_pow(x, y=3), X)
    if hasattr(jax.nn, "logmeanexp"):
        add("nn.logmeanexp(axis=0,keepdims=True)", lambda x: jax.nn.logmeanexp(x, axis=0, keepdims=True), X)
        add("nn.logmeanexp(axis positional, keepdims positional)", lambda x: jax.nn.logmeanexp(x, 1, None, True), X)
        add("nn.logmeanexp(axis=None,keepdims=True)", lambda x: jax.nn.logmeanexp(x, keepdims=True), X)
        add("nn.logmeanexp(where=)", lambda x: jax.nn.logmeanexp(x, axis=1, where=x > -0.2), X)
    # parameters of activations given positionally
    add("nn.leaky_relu(slope positional)", lambda x: jax.nn.leaky_relu(x, 0.3), X)
    add("nn.elu(alpha positional)", lambda x: jax.nn.elu(x, 0.5), X)
    add("nn.celu(alpha positional)", lambda x: jax.nn.celu(x, 0.3), X)
    add("nn.gelu(approximate positional False)", lambda x: jax.nn.gelu(x, False), X)
    add("nn.gelu(approximate positional True)", lambda x: jax.nn.gelu(x, True), X)
    add("nn.softmax(axis positional, where positional)", lambda x: jax.nn.softmax(x, 1, x > -0.1), X)
    add("nn.log_softmax(axis positional)", lambda x: jax.nn.log_softmax(x, 0), X)
    add("nn.logsumexp(axis positional, b positional)", lambda x: jax.nn.logsumexp(x, 1, jnp.abs(x) + 1), X)
    add("nn.glu(axis positional)", lambda x: jax.nn.glu(x, 1), X)
    add("nn.standardize(axis positional)", lambda x: jax.nn.standardize(x, 0), X)
    add("nn.one_hot(all positional incl. dtype)", lambda i: jax.nn.one_hot(i, 4, jnp.float32), I, ints=(0, 4))
    add("nn.hard_tanh positional", lambda x: jax.nn.hard_tanh(x * 3), X)
    add("nn.relu6/selu/softsign/mish", lambda x: jax.nn.relu6(x * 8) + jax.nn.selu(x) + jax.nn.soft_sign(x) + jax.nn.mish(x), X)
    add("nn.logsumexp(axis=None,keepdims=True)", lambda x: jax.nn.logsumexp(x, keepdims=True), X)
    add("nn.logsumexp(return_sign=True)", lambda x: jax.nn.logsumexp(x, axis=0, b=x, return_sign=True), X)
    add("nn.softmax(axis=None)", lambda x: jax.nn.softmax(x, axis=None), X)
    add("nn.relu6", lambda x: jax.nn.relu6(x * 8), X)
    add("nn.sigmoid", lambda x: jax.nn.sigmoid(x), X)
    add("nn.softplus", lambda x: jax.nn.softplus(x), X)
    add("nn.silu", lambda x: jax.nn.silu(x), X)
    # the same calls with non-floating operands (JAX promotes; the substitute may take another path)
    for name in list(C):
        spec = C[name]
        if spec["sig"] and all(np.dtype(dt) == np.float32 for _, dt in spec["sig"]) and not name.startswith(("lax.conv", "lax.fori", "lax.scan")):
            for tag, dt in (("int32", np.int32), ("bool", np.bool_)):
                C[f"{name}@{tag}"] = {"fn": spec["fn"], "sig": [(shp, dt) for shp, _ in spec["sig"]], "ints": (-3, 4), "operand": tag}
    return C


def _module_calls() -> dict[str, dict[str, Any]]:
    import flax.linen as nn
    import jax
    import jax.numpy as jnp
    from flax import nnx

    X = ((3, 4), np.float32)
    C: dict[str, dict[str, Any]] = {}
    lin = nnx.Linear(4, 5, rngs=nnx.Rngs(0))
    C["nnx.Linear(inputs=)"] = {"fn": lambda x: lin(inputs=x), "sig": [X]}
    C["nnx.Linear(positional)"] = {"fn": lambda x: lin(x), "sig": [X]}
    ln = nnx.LayerNorm(4, rngs=nnx.Rngs(0))
    C["nnx.LayerNorm(mask=)"] = {"fn": lambda x: ln(x, mask=None), "sig": [X]}
    bn = nnx.BatchNorm(4, use_running_average=True, rngs=nnx.Rngs(0))
    C["nnx.BatchNorm(use_running_average=True)"] = {"fn": lambda x: bn(x, use_running_average=True), "sig": [X]}
    do = nnx.Dropout(0.5, deterministic=True, rngs=nnx.Rngs(0))
    C["nnx.Dropout(deterministic=True)"] = {"fn": lambda x: do(x, deterministic=True), "sig": [X]}
    C["nnx.softmax(axis=0)"] = {"fn": lambda x: nnx.softmax(x, axis=0), "sig": [X]}
    C["nnx.gelu(approximate=False)"] = {"fn": lambda x: nnx.gelu(x, approximate=False), "sig": [X]}
    C["nnx.leaky_relu(negative_slope=0.3)"] = {"fn": lambda x: nnx.leaky_relu(x, negative_slope=0.3), "sig": [X]}
    # Flax module methods behind an ONNX function boundary: explicit None / value / default keyword forms
    from vlib import fnmods7

    km = fnmods7.DKwModule(0.25)
    C["onnx_function(nnx.Module)(gain=None)"] = {"fn": lambda x: km(x, gain=None), "sig": [X]}
    C["onnx_function(nnx.Module)(gain=None)+default"] = {"fn": lambda x: km(x, gain=None) + km(x), "sig": [X]}
    C["onnx_function(nnx.Module)(gain=3.0,mode=None)"] = {"fn": lambda x: km(x, gain=3.0, mode=None), "sig": [X]}
    C["onnx_function(fn)(gain=None)+default"] = {"fn": lambda x: fnmods7.f_kw(x, gain=None) - fnmods7.f_kw(x), "sig": [X]}
    d = nn.Dense(5)
    p = d.init(jax.random.PRNGKey(0), jnp.ones((1, 4)))
    C["linen.Dense(apply)"] = {"fn": lambda x: d.apply(p, inputs=x), "sig": [X]}
    return C


# ----------------------------------------------------------------------------


def enumerate_cases(tier: str, seed: int) -> list[dict[str, Any]]:
    cases: list[dict[str, Any]] = []
    for o in _specs():
        cases.append({"key": f"sig:{o['id']}", "src": "sig", "id": o["id"], "cost": 0.2})
    for name in list(_single_calls()) + list(_module_calls()):
        cases.append({"key": f"call:{name}", "src": "call", "name": name, "cost": 1.0})
    return recs.only_filter(cases)


def _sig_case(case: dict[str, Any]) -> dict[str, Any]:
    rec: dict[str, Any] = {"evals": 0, "nontrivial": [], "violations": [], "obs": {}}
    o = next((s for s in _specs_cached() if s["id"] == case["id"]), None)
    if o is None:
        return {"status": "inconclusive", "reason": "spec_not_found"}
    try:
        orig, sub = _original_and_substitute(o)
    except Exception as exc:  # noqa: BLE001
        rec["evals"] = 1
        rec["violations"].append({"family": case["id"], "kind": "dangling_spec", "cls": "make_value", "text": f"{case['id']}: cannot build the substitute: {type(exc).__name__}: {str(exc)[:150]}"})
        rec["status"] = "violated"
        return rec
    if orig is None:
        rec["evals"] = 1
        rec["violations"].append({"family": case["id"], "kind": "dangling_spec", "cls": "missing_original", "text": f"{case['id']}: the patched attribute does not exist in the installed library"})
        rec["status"] = "violated"
        return rec
    try:
        sig = inspect.signature(orig)
    except (TypeError, ValueError):
        return {"status": "skipped", "reason": "original_has_no_introspectable_signature"}
    base, forms = _forms(sig)
    bstat, bwhy = _try(sub, *base)
    rec["evals"] += 1
    rec["obs"]["forms_called"] = 1
    if bstat != "binds":
        # a failing base form is judged in the single-call part; here: inconclusive observation
        rec["obs"]["base_form_does_not_bind(observation)"] = 1
        rec["status"] = "held"
        rec["sample"] = {"substitute": case["id"], "base": bwhy}
        return rec
    rec["nontrivial"].append(f"{case['id']}|base")
    failing = []
    for label, pos, kw in forms:
        try:
            sig.bind(*pos, **kw)
        except TypeError:
            continue
        st, why = _try(sub, pos, kw)
        rec["evals"] += 1
        rec["obs"]["forms_called"] += 1
        if st == "binding_error":
            failing.append((label, why))
            rec["violations"].append({"family": case["id"], "kind": "binding", "cls": label, "text": f"{case['id']}: the original accepts the call form {label}, the tracing-time substitute does not: {why}"})
        else:
            rec["nontrivial"].append(f"{case['id']}|{label}")
    rec["status"] = "violated" if rec["violations"] else "held"
    rec["sample"] = {"substitute": case["id"], "signature": str(sig)[:160], "forms": 1 + len(forms), "not_binding": [f[0] for f in failing]}
    return rec


_SPECS: list[dict[str, Any]] | None = None


def _specs_cached() -> list[dict[str, Any]]:
    global _SPECS
    if _SPECS is None:
        _SPECS = _specs()
    return _SPECS


_EXPLICIT_RE = re.compile(r"(not supported|unsupported|only supports?|not implemented|does not support|cannot be exported|is required|requires|must be|must have|expected \d+ dims|expects? rank)", re.I)


def _call_case(case: dict[str, Any], seed: int) -> dict[str, Any]:
    import jax
    from jax2onnx.user_interface import to_onnx

    rec: dict[str, Any] = {"evals": 0, "nontrivial": [], "violations": [], "obs": {}}
    allc = {**_single_calls(), **_module_calls()}
    spec = allc[case["name"]]
    rng = np.random.default_rng([seed, stable_hash(case["key"]) % 2**31])
    xs = []
    for shape, dt in spec["sig"]:
        if np.dtype(dt) == np.bool_:
            xs.append(rng.random(shape) < 0.5)
        elif np.issubdtype(dt, np.integer):
            lo, hi = spec.get("ints") or (0, 3)
            xs.append(rng.integers(lo, hi, shape).astype(dt))
        else:
            xs.append((rng.standard_normal(shape) * 0.5).astype(dt))
    fn = spec["fn"]
    try:
        ref = registry.eval_jax(fn, xs, {}, False)
    except Exception as exc:  # noqa: BLE001
        return {"status": "skipped", "reason": "eager_jax_rejects_the_call", "detail": f"{type(exc).__name__}: {str(exc)[:120]}"}
    specs = [jax.ShapeDtypeStruct(s, dt) for s, dt in spec["sig"]]
    fam = "call/" + case["name"].split("(")[0]
    try:
        model = to_onnx(fn, specs)
    except TypeError as exc:
        msg = str(exc)
        frames = traceback.extract_tb(exc.__traceback__)
        inner = frames[-1].filename if frames else ""
        rec["evals"] = 1
        if _BIND_RE.search(msg) and ("/jax2onnx/" in inner or "checks/c19" in inner):
            # how the substitute binds its arguments does not depend on the operand dtype: same class as the base form
            rec["violations"].append({"family": fam, "kind": "binding", "cls": case["name"].split("@")[0], "text": f"{case['name']}: valid in eager JAX, fails while traced because the substitute binds arguments differently: {msg[:200]}"})
            rec["status"] = "violated"
        else:
            rec["obs"]["rejected_with_TypeError_from_library"] = 1
            rec["nontrivial"].append(case["key"] + "|rejected")
            rec["status"] = "held"
        rec["sample"] = {"call": case["name"], "outcome": f"TypeError: {msg[:120]}"}
        return rec
    except Exception as exc:  # noqa: BLE001
        rec["evals"] = 1
        frames = traceback.extract_tb(exc.__traceback__)
        inner = frames[-1].filename if frames else ""
        explicit = isinstance(exc, NotImplementedError) or bool(_EXPLICIT_RE.search(str(exc)))
        if not explicit and "/jax2onnx/" in inner and isinstance(exc, (ValueError, AttributeError, KeyError, IndexError, AssertionError)):
            # eager JAX accepts the call; the substitute's own code trips over it (no unsupported-feature message)
            rec["violations"].append({"family": fam, "kind": "internal_failure", "cls": case["name"].split("@")[0] if "@" not in case["name"] else case["name"],
                                      "text": f"{case['name']}: valid in eager JAX, fails while traced inside jax2onnx with {type(exc).__name__}: {str(exc)[:160]} ({inner.split('/jax2onnx/')[-1]}:{frames[-1].lineno})"})
            rec["status"] = "violated"
            rec["sample"] = {"call": case["name"], "outcome": f"{type(exc).__name__}: {str(exc)[:120]}"}
            return rec
        rec["obs"]["explicitly_rejected" if explicit else "rejected_by_library_error"] = 1
        rec["nontrivial"].append(case["key"] + "|rejected")
        rec["status"] = "held"
        rec["sample"] = {"call": case["name"], "outcome": f"{type(exc).__name__}: {str(exc)[:120]}"}
        return rec
    rec["evals"] = 1
    try:
        got = ortrun.run_model(model, xs)
    except ortrun.OrtEnvLimit:
        return {"status": "inconclusive", "reason": "ort_env_limit"}
    except (ortrun.OrtLoadError, ortrun.OrtRunError) as exc:
        rec["violations"].append({"family": fam, "kind": "invalid_model", "cls": case["name"], "text": f"{case['name']}: exported model fails in ORT: {str(exc)[:200]}"})
        rec["status"] = "violated"
        return rec
    lazy = oracle.make_lazy(lambda: fn, xs, {}, False, rng, registry.eval_jax)
    c = oracle.compare(ref, got, lazy=lazy)
    if not c.ok and not c.unstable_only:
        rec["violations"].append({"family": fam, "kind": "argument_ignored_or_reinterpreted:" + (c.kind or "value"), "cls": case["name"], "text": f"{case['name']}: exported without error but differs from eager JAX: {c.text}"})
    else:
        rec["nontrivial"].append(case["key"] + "|agrees")
    rec["status"] = "violated" if rec["violations"] else "held"
    rec["sample"] = {"call": case["name"], "outcome": "exported", "ops": [n.op_type for n in model.graph.node][:6]}
    return rec


def run_case(case: dict[str, Any], tier: str, seed: int) -> dict[str, Any]:
    if case["src"] == "sig":
        return _sig_case(case)
    return _call_case(case, seed)
