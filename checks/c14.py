"""C14 — export is deterministic and independent of history."""

from __future__ import annotations

import json
import os
import subprocess
from typing import Any

import numpy as np

from vlib import graphgen, recs, registry
from vlib.substrate import PY, VERIF, stable_hash, worker_env

FAMILY_HINTS = [
    "examples.nnx/CNN", "examples.nnx/ResBlock", "examples.linen/LinenCNN", "examples.onnx_functions/", "primitives.lax/while_loop", "primitives.lax/scan",
    "primitives.lax/cond", "primitives.lax/fori_loop", "primitives.nnx/conv", "primitives.nnx/batch_norm", "primitives.nnx/multi_head_attention",
    "primitives.jnp/einsum", "primitives.jnp/add", "primitives.nnx/dropout", "examples.eqx/", "primitives.nnx/avg_pool", "primitives.jnp/concatenate",
    "primitives.jnp/reshape", "primitives.jnp/transpose", "primitives.nn/dot_product_attention", "examples.jnp/", "examples.lax/", "primitives.linen/conv",
]

CONFIGS = [
    {"name": "seed0_forward_repeat", "hashseed": "0", "order": "forward", "repeat": 2},
    {"name": "seed1_reversed_noise", "hashseed": "1", "order": "reversed", "interleave_noise": True},
    {"name": "seed2_shuffled_plugin_import_order", "hashseed": "2", "order": "shuffled", "order_seed": 5, "shuffle_plugin_imports": True},
    {"name": "seed3_after_long_history", "hashseed": "3", "order": "forward", "warm_history": True, "interleave_noise": True},
    {"name": "seed4_first_conversion_double_lazy_plugin_import", "hashseed": "4", "order": "forward", "no_preload": True, "first_double": True},
    {"name": "seed_random_shuffled", "hashseed": "random", "order": "shuffled", "order_seed": 11, "repeat": 2},
]


_JITZOO: dict[str, Any] = {}


def _jitzoo() -> dict[str, Any]:
    """jax.jit-wrapped helpers full of *parametrised* primitives.  JAX caches the helper's jaxpr, so
    every export after the first lowers the very same equation objects again: a lowering that
    consumes or edits what it reads (eqn.params, closed-over constants) shows up as a later
    export that differs from the first."""
    if _JITZOO:
        return _JITZOO
    import jax
    import jax.numpy as jnp
    from jax import lax

    def a(x):
        i = jnp.argsort(x, axis=1)
        return (jnp.triu(x, k=1), jnp.tril(x, k=-1), jnp.cumsum(x, axis=1), jnp.roll(x, 2, axis=1), jnp.clip(x, -0.2, 0.3), jnp.pad(x, ((1, 0), (0, 2)), constant_values=0.5),
                jnp.sort(x, axis=0), i, jnp.take(x, jnp.array([2, 0]), axis=1), jnp.flip(x, axis=1), jnp.squeeze(x[:, :1], axis=1), jnp.expand_dims(x, axis=(0, 2)))

    def b(x):
        return (jnp.argmax(x, axis=0), jnp.argmin(x, axis=1), jnp.argmax(x), jnp.sum(x, axis=1, keepdims=True), jnp.max(x, axis=0), jnp.mean(x, axis=(0, 1)), jnp.prod(x, axis=1), jnp.var(x, axis=0, ddof=1), jnp.argmax(x, axis=1, keepdims=True),
                jax.nn.softmax(x, axis=0), jax.nn.log_softmax(x, axis=1), jax.nn.logsumexp(x, axis=1, keepdims=True), jax.nn.gelu(x, approximate=False), jax.nn.leaky_relu(x, negative_slope=0.3),
                jax.nn.elu(x, alpha=0.5), jax.nn.one_hot(jnp.argmax(x, axis=1), 4, axis=0), jax.nn.standardize(x, axis=0))

    def c(x):
        return (jnp.transpose(x, (1, 0)), jnp.reshape(x, (2, 6)), jnp.tile(x, (1, 2)), jnp.repeat(x, 2, axis=0), jnp.concatenate([x, x * 2], axis=1), jnp.stack([x, -x], axis=-1),
                jnp.split(x, 2, axis=1)[1], jnp.moveaxis(x, 0, 1), jnp.einsum("ij,kj->ik", x, x), jnp.tensordot(x, x, axes=([1], [1])), jnp.linspace(0.0, 1.0, 4, endpoint=False) + x,
                jnp.arange(0, 8, 2, dtype=jnp.float32) * x, jnp.where(x > 0, x, -1.0), jnp.select([x > 0.2, x > 0], [x, x * 2], default=-1.0), jnp.round(x, decimals=1), jnp.diff(x, axis=0))

    def d(x):
        return (lax.cumsum(x, axis=1, reverse=True), lax.cummax(x, axis=0), lax.reduce_max(x, axes=(1,)), lax.dynamic_slice(x, (1, 1), (2, 2)), lax.dynamic_update_slice(x, jnp.ones((1, 2), x.dtype), (1, 1)),
                lax.top_k(x, k=2)[0], lax.integer_pow(x, 3), lax.slice(x, (0, 1), (3, 4), (1, 2)), lax.rev(x, (0,)), lax.broadcast_in_dim(x[0], (2, 4), (1,)), lax.iota(jnp.float32, 4) + x,
                lax.reduce_window(x, 0.0, lax.add, (2, 2), (1, 2), "SAME"), lax.pad(x, 0.25, ((1, 0, 0), (0, 1, 0))), lax.convert_element_type(x, jnp.int32), lax.clamp(-0.1, x, 0.2),
                lax.dot_general(x, x, (((1,), (1,)), ((), ()))), lax.conv_general_dilated(x.reshape(1, 3, 4, 1), jnp.ones((2, 2, 1, 2), jnp.float32), (1, 1), "SAME", rhs_dilation=(2, 1), dimension_numbers=("NHWC", "HWIO", "NHWC")))

    def e(x):
        return (lax.fori_loop(1, 4, lambda i, v: v * 1.1 + i, x), lax.scan(lambda c_, r: (c_ + r, c_ * r), jnp.zeros((4,), x.dtype), x)[1], lax.cond(jnp.sum(x) > 0, lambda v: jnp.triu(v, k=1), lambda v: jnp.tril(v, k=-1), x),
                lax.while_loop(lambda s: s[0] < 3, lambda s: (s[0] + 1, s[1] * 0.5 + 1.0), (0, x))[1])

    for nm, f in (("a", a), ("b", b), ("c", c), ("d", d), ("e", e)):
        _JITZOO[nm] = jax.jit(f)
    return _JITZOO


def hand_export(name: str):
    import jax
    import jax.numpy as jnp
    from jax import lax
    from jax2onnx import to_onnx

    from vlib import fnmods

    if name.startswith("zoo_"):  # the same parametrised helpers, not jitted
        return to_onnx(lambda x: _jitzoo()[name.split("_")[1]].__wrapped__(x), [(3, 4)], enable_double_precision=name.endswith("_double"))
    if name.startswith("jitzoo_"):
        helper = _jitzoo()[name.split("_")[1]]
        if name.endswith("_other_model"):  # a different model that shares the jitted helper (same operand shape and dtype)
            return to_onnx(lambda x, y: [t * 2.0 if t.dtype == jnp.float32 else t for t in helper(x + 0.0)][:3] + [y], [(3, 4), (2,)])
        return to_onnx(lambda x: helper(x), [(3, 4)])
    if name == "gather_const_indices":
        g = lambda x: lax.gather(x, lax.reshape(jnp.array([2, 0]), (2, 1)), lax.GatherDimensionNumbers(offset_dims=(1,), collapsed_slice_dims=(0,), start_index_map=(0,)), (1, 4))  # noqa: E731
        return to_onnx(lambda x: g(x) * 2.0 + x[jnp.array([1, 1])], [(3, 4)])
    if name == "input_params_forwarded":
        return to_onnx(fnmods.c14_outer_params, [("B", 4)], input_params={"deterministic": True, "scale": np.float32(2.0), "flag": False})
    if name == "function_used_by_failed_conversion":
        return to_onnx(fnmods.c14_gated_model, [(2, 3)])
    if name == "nchw_add_forest":
        return to_onnx(lambda a, b, c: (a + b) + (c + a) * 2.0, [(2, 3, 3, 3)] * 3, inputs_as_nchw=[0, 1, 2], outputs_as_nchw=[0])
    if name == "function_dedup_array_captures":
        return to_onnx(fnmods.c14_outer, [("B", 4)])
    if name == "nested_functions":
        return to_onnx(fnmods.c13_outer, [("B", 3)])
    if name == "loops_and_conds":
        return to_onnx(lambda x: lax.fori_loop(0, 3, lambda i, v: lax.cond(jnp.sum(v) > 0, lambda u: jnp.tanh(u), lambda u: u * 2, v), x) + lax.scan(lambda c, r: (c + r, c * r), jnp.zeros((3,)), x)[1].sum(0), [(2, 3)])
    if name == "symbolic_two":
        return to_onnx(lambda a, b: jnp.concatenate([a, b], 0).reshape(-1, 3) * a.shape[0], [("B", 3), ("N", 3)])
    if name == "many_transposes":
        def f(x):
            y = jnp.transpose(x, (0, 3, 1, 2))
            z = jnp.maximum(y, 0.0) + jnp.transpose(x * 2, (0, 3, 1, 2))
            return jnp.transpose(z, (0, 2, 3, 1)), jnp.transpose(jnp.tanh(y), (0, 2, 3, 1))
        return to_onnx(f, [(2, 3, 3, 3)])
    if name == "double_consts":
        return to_onnx(lambda x: x * 0.1 + np.arange(3) * 0.3, [(2, 3)], enable_double_precision=True)
    raise KeyError(name)


HAND_ZOO = ["zoo_a", "zoo_b", "zoo_c", "zoo_d", "zoo_e", "zoo_b_double", "zoo_d_double"]
HAND_JIT = ["jitzoo_a_other_model", "jitzoo_a", "jitzoo_b", "jitzoo_c", "jitzoo_d", "jitzoo_e", "jitzoo_d_other_model"]
HAND = ["function_used_by_failed_conversion", "gather_const_indices", "input_params_forwarded", "nchw_add_forest", "function_dedup_array_captures", "nested_functions", "loops_and_conds", "symbolic_two", "many_transposes", "double_consts"]


def _requests(tier: str, seed: int) -> list[str]:
    per: dict[str, int] = {}
    lim = 1 if tier == "quick" else 6
    out = []
    for tp in registry.corpus():
        if registry.is_heavy(tp):
            continue
        if tier == "quick" and tp["_dp"]:
            continue
        hint = next((h for h in FAMILY_HINTS if tp["_family"].startswith(h)), None)
        if hint is None:
            if tier != "thorough" or (stable_hash(tp["_pid"]) + seed) % 12:
                continue
            hint = tp["_family"]
        key = tp["_family"]
        if per.get(key, 0) >= lim:
            continue
        per[key] = per.get(key, 0) + 1
        out.append(tp["_pid"])
    return out


def enumerate_cases(tier: str, seed: int) -> list[dict[str, Any]]:
    reqs = _requests(tier, seed)
    cap = 40 if tier == "quick" else 400
    reqs = reqs[:cap]
    group = 8
    cases = []
    for gi in range(0, len(reqs), group):
        cases.append({"key": f"group:reg:{gi // group}", "requests": reqs[gi : gi + group], "cost": 5.0, "timeout": 900})
    cases.append({"key": "group:hand", "requests": ["hand:" + h for h in HAND], "cost": 5.0, "timeout": 900})
    cases.append({"key": "group:hand_zoo", "requests": ["hand:" + h for h in HAND_ZOO], "cost": 5.0, "timeout": 900})
    cases.append({"key": "group:hand_jit", "requests": ["hand:" + h for h in HAND_JIT], "cost": 5.0, "timeout": 900})
    n_graph = 60 if tier == "quick" else 600
    recipes = [r for r in graphgen.recipes(n_graph * 2, seed + 99) if r["t"] in ("transpose_chain", "add_forest", "transpose_reduce", "reshape_pair", "in_if", "in_function")][:n_graph]
    for gi in range(0, len(recipes), 30):
        chunk = recipes[gi : gi + 30]
        cases.append({"key": f"group:graph:{gi // 30}", "requests": [f"graph:{r['id']}" for r in chunk], "recipes": {f"graph:{r['id']}": r for r in chunk}, "cost": 3.0, "timeout": 900})
    return recs.only_filter(cases)


def _spawn(cfg: dict[str, Any], hashseed: str) -> subprocess.Popen:
    env = worker_env()
    env["PYTHONHASHSEED"] = hashseed
    return subprocess.Popen([PY, "-m", "vlib.c14child", json.dumps(cfg)], cwd=VERIF, env=env, stdout=subprocess.PIPE, stderr=subprocess.PIPE, text=True)


def _collect(p: subprocess.Popen) -> dict[str, list[str]] | str:
    try:
        out, err = p.communicate(timeout=800)
    except subprocess.TimeoutExpired:
        p.kill()
        p.communicate()
        return "timeout"
    for line in out.splitlines():
        if line.startswith("C14RESULT "):
            return json.loads(line[len("C14RESULT "):])
    return "child failed: " + (err or out)[-300:]


def run_case(case: dict[str, Any], tier: str, seed: int) -> dict[str, Any]:
    rec: dict[str, Any] = {"evals": 0, "nontrivial": [], "violations": [], "obs": {}}
    results: dict[str, dict[str, list[str]]] = {}
    procs = []
    for conf in CONFIGS:
        cfg = {k: v for k, v in conf.items() if k not in ("name", "hashseed")}
        cfg["requests"] = case["requests"]
        if "recipes" in case:
            cfg["recipes"] = case["recipes"]
        procs.append((conf, _spawn(cfg, conf["hashseed"])))
    for conf, pr in procs:
        res = _collect(pr)
        if isinstance(res, str):
            rec["obs"]["child_process_failed"] = rec["obs"].get("child_process_failed", 0) + 1
            rec.setdefault("child_errors", []).append(f"{conf['name']}: {res[:200]}")
            continue
        results[conf["name"]] = res
        rec["obs"]["child_processes"] = rec["obs"].get("child_processes", 0) + 1
    if len(results) < 2:
        return {"status": "inconclusive", "reason": "fewer_than_two_child_processes", "detail": str(rec.get("child_errors"))[:300]}
    for req in case["requests"]:
        seen: dict[str, list[str]] = {}
        n = 0
        for cname, res in results.items():
            for pos, d in enumerate(res.get(req, [])):
                seen.setdefault(d, []).append(f"{cname}#{pos}")
                n += 1
        rec["evals"] += n
        digests = [d for d in seen if not d.startswith("EXC:")]
        excs = [d for d in seen if d.startswith("EXC:")]
        fam = req if not req.startswith("graph:") else "optimizer_graph/" + req.split(":")[1]
        if len(results) >= 2 and n >= 2 and digests:
            rec["nontrivial"].append(req)
        if len(digests) > 1:
            rec["violations"].append({"family": fam, "program": req, "kind": "digest_differs", "cls": "across_configurations", "text": f"{req}: {len(digests)} different serialisations: " + "; ".join(f"{d[:10]}.. in {v[:3]}" for d, v in seen.items())})
        elif digests and excs:
            rec["violations"].append({"family": fam, "program": req, "kind": "outcome_differs", "cls": "across_configurations", "text": f"{req}: exported in {seen[digests[0]][:3]} but raised {excs} in {[seen[e][:2] for e in excs]}"})
    rec["status"] = "violated" if rec["violations"] else "held"
    rec["sample"] = {"requests": case["requests"][:3], "configurations": list(results), "digests_of_first_request": {c: r.get(case["requests"][0], ["-"])[0][:12] for c, r in results.items()}}
    return rec
