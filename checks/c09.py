"""C09 — precision flag honoured end to end."""

from __future__ import annotations

import os
import tempfile
from typing import Any

import numpy as np
from onnx import AttributeProto, TensorProto

from vlib import inputs as vin
from vlib import modelwalk, oracle, ortrun, programs, recs, registry
from vlib.substrate import stable_hash

EPS64 = 2.0**-30
K64 = (8.0, 64.0, 0.0, 8.0)


def double_sites(model) -> list[str]:
    """Every place a DOUBLE element type occurs (recursively)."""
    sites: list[str] = []
    for where, t in modelwalk.iter_all_tensors(model):
        if t.data_type == TensorProto.DOUBLE:
            sites.append(f"tensor {where}")
    for gp, kind, vi in modelwalk.iter_all_value_infos(model):
        if modelwalk.vi_elem_type(vi) == TensorProto.DOUBLE:
            sites.append(f"{kind} {gp}:{vi.name}")
    for p, node in modelwalk.iter_all_nodes(model):
        for a in node.attribute:
            if a.name in ("to", "dtype") and a.type == AttributeProto.INT and a.i == TensorProto.DOUBLE:
                sites.append(f"attribute {p}@{a.name}=DOUBLE")
            if a.type == AttributeProto.TYPE_PROTO and a.tp.tensor_type.elem_type == TensorProto.DOUBLE:
                sites.append(f"attribute {p}@{a.name}:type DOUBLE")
    return sites


def f32_rounded_constants(model) -> list[str]:
    """DOUBLE constants whose value is exactly representable in float32 although it uses
    13..24 significant bits: 0.7 rounded through float32 is 0.699999988079071 (24 bits),
    a genuine double 0.7 needs 53 bits, and 0.5 / 3.0 / 1024.0 need <= 12."""
    from onnx import numpy_helper

    out: list[str] = []
    for where, t in modelwalk.iter_all_tensors(model):
        if t.data_type != TensorProto.DOUBLE:
            continue
        try:
            a = numpy_helper.to_array(t).astype(np.float64).reshape(-1)
        except Exception:  # noqa: BLE001
            continue
        a = a[np.isfinite(a) & (a != 0)]
        a = a[a != np.round(a)]  # integer-valued doubles (1e9, 255.0) say nothing about precision
        if a.size == 0:
            continue
        with np.errstate(over="ignore"):
            rep = a.astype(np.float32).astype(np.float64) == a
        if not np.any(rep):
            continue
        m, _ = np.frexp(np.abs(a[rep]))
        mi = (m * 2.0**53).astype(np.uint64)
        tz = np.zeros(mi.shape, np.int64)
        for k in (32, 16, 8, 4, 2, 1):
            mask = (mi & np.uint64((1 << k) - 1)) == 0
            tz = np.where(mask & (mi != 0), tz + k, tz)
            mi = np.where(mask & (mi != 0), mi >> np.uint64(k), mi)
        sig = 53 - tz
        sus = sig >= 13
        if np.any(sus):
            vals = a[rep][sus]
            out.append(f"{where}: {vals.size} value(s), e.g. {float(vals[0])!r}")
    return out


def _only_f64_floats(fn, sig, params) -> tuple[bool, str]:
    """The x64 jaxpr of the callable involves only float64 floating avals."""
    import jax

    with registry.x64(True):
        sds = [jax.ShapeDtypeStruct(s, dt) for s, dt in sig]
        closed = jax.make_jaxpr(lambda *a: fn(*a, **params))(*sds)

    bad: list[str] = []

    def visit(jaxpr) -> None:
        for v in list(jaxpr.invars) + list(jaxpr.constvars) + list(jaxpr.outvars):
            check(v)
        for eqn in jaxpr.eqns:
            for v in list(eqn.invars) + list(eqn.outvars):
                check(v)
            for pv in eqn.params.values():
                for sub in _subjaxprs(pv):
                    visit(sub)

    def _subjaxprs(pv):
        if hasattr(pv, "jaxpr") and hasattr(pv.jaxpr, "eqns"):
            yield pv.jaxpr
        elif hasattr(pv, "eqns"):
            yield pv
        elif isinstance(pv, (list, tuple)):
            for x in pv:
                yield from _subjaxprs(x)

    def check(v) -> None:
        aval = getattr(v, "aval", None)
        dt = getattr(aval, "dtype", None)
        if dt is None:
            return
        try:
            dt = np.dtype(dt)
        except TypeError:
            return
        if (np.issubdtype(dt, np.floating) and dt != np.float64) or dt == np.complex64 or dt.name == "bfloat16":
            if len(bad) < 3:
                bad.append(str(dt))

    visit(closed.jaxpr)
    for c in closed.consts:
        dt = getattr(c, "dtype", None)
        if dt is not None and np.issubdtype(np.dtype(dt), np.floating) and np.dtype(dt) != np.float64:
            bad.append(f"const {dt}")
    return (not bad), ",".join(bad)


# ----------------------------------------------------------------------------
# sentinel programs: constants of every provenance at every nesting site
# ----------------------------------------------------------------------------


def _sentinels() -> dict[str, Any]:
    import jax
    import jax.numpy as jnp
    from jax import lax

    C = 0.1  # not representable in float32
    c32 = np.float32(0.1)
    c64 = np.float64(0.1)
    arr64 = np.array([0.1, 0.2, 0.3], dtype=np.float64)
    S: dict[str, Any] = {}
    S["py_scalar_top"] = lambda x: x * C + C
    S["np64_scalar_top"] = lambda x: x * c64
    S["np64_array_top"] = lambda x: x + arr64
    S["py_scalar_in_cond"] = lambda x: lax.cond(jnp.sum(x) > 0, lambda v: v * C, lambda v: v - C, x)
    S["np64_array_in_cond"] = lambda x: lax.cond(jnp.sum(x) > 0, lambda v: v * arr64, lambda v: v - arr64, x)
    S["py_scalar_in_fori"] = lambda x: lax.fori_loop(0, 3, lambda i, v: v * C + C, x)
    S["np64_array_in_fori"] = lambda x: lax.fori_loop(0, 3, lambda i, v: v * arr64 + 1.0 / 3.0, x)
    S["py_scalar_in_while"] = lambda x: lax.while_loop(lambda s: s[0] < 3, lambda s: (s[0] + 1, s[1] * C + 1.0 / 3.0), (0, x))[1]
    S["py_scalar_in_scan"] = lambda x: lax.scan(lambda c, _: (c * C + 1.0 / 7.0, c * 1.1), x, None, length=3)[1]
    S["divide_thirds"] = lambda x: (x / 3.0 + 1.0 / 3.0) * 1e-3
    S["exp_log_chain"] = lambda x: jnp.log1p(jnp.exp(x * 0.3)) - jnp.tanh(x * C)
    S["mean_var"] = lambda x: (x - jnp.mean(x)) / jnp.sqrt(jnp.var(x) + 1e-5)
    S["arange_linspace"] = lambda x: x + jnp.linspace(0.0, 1.0, 3) + jnp.arange(3) * C
    S["where_scalar"] = lambda x: jnp.where(x > 0.1, x, C)
    S["clip_consts"] = lambda x: jnp.clip(x, -0.1, 0.7)
    S["pow_const"] = lambda x: jnp.abs(x) ** 1.1 + 2.0 ** x
    S["softmax_scaled"] = lambda x: jax.nn.softmax(x * C)
    S["gelu_tanh"] = lambda x: jax.nn.gelu(x, approximate=True)
    S["sigmoid_silu"] = lambda x: jax.nn.sigmoid(x) + jax.nn.silu(x * C)
    S["weak_full"] = lambda x: x + jnp.full((3,), 0.7)
    S["weak_where_two_scalars"] = lambda x: jnp.where(x > 0.2, 0.7, 0.3) * x
    S["weak_cond_operand"] = lambda x: lax.cond(jnp.sum(x) > 0, lambda v, c: v * c, lambda v, c: v - c, x, 0.7)
    S["weak_scan_init"] = lambda x: lax.scan(lambda c, _: (c * 0.5 + 0.1, c), 0.7, None, length=3)[1] + x
    S["weak_fori_init"] = lambda x: lax.fori_loop(0, 3, lambda i, c: c * 0.3 + 0.1, 0.7) + x
    S["weak_while_init"] = lambda x: lax.while_loop(lambda s: s[0] < 3, lambda s: (s[0] + 1, s[1] * 0.3 + 0.1), (0, 0.7))[1] + x
    S["weak_maximum_scalar"] = lambda x: jnp.maximum(x, 0.7) + jnp.minimum(0.3, x)
    S["weak_clip_and_select"] = lambda x: lax.select(x > 0.1, jnp.full_like(x, 0.7), x) + lax.clamp(0.1, x, 0.7)
    S["weak_pad_value"] = lambda x: jnp.pad(x, 1, constant_values=0.7)[1:-1] + lax.pad(x, 0.3, [(0, 0, 0)])
    S["weak_linspace_arange"] = lambda x: x + jnp.linspace(0.1, 0.7, 3) + jnp.arange(0.1, 0.35, 0.1)
    S["weak_full_in_scan_body"] = lambda x: lax.scan(lambda c, _: (c + jnp.full((3,), 0.7), jnp.where(c > 0, 0.7, 0.3)), x, None, length=2)[1].sum(0)
    S["weak_mean_of_literals"] = lambda x: x * jnp.mean(jnp.array([0.1, 0.7, 0.3])) + jnp.float_power(jnp.abs(x) + 0.5, 0.7)
    # static Python-float parameters of lowerings (not jaxpr literals): each must reach a double export at full precision
    oob = jnp.array([0, 5, 1, 7, 2])
    S["static_gather_fill_value"] = lambda x: x.at[oob].get(mode="fill", fill_value=0.1) + x.at[oob].get(mode="fill", fill_value=0.7)[::-1]
    S["static_scatter_set_add_mul"] = lambda x: x.at[1].set(0.1).at[0].add(0.7).at[2].multiply(0.3)
    S["static_scatter_oob_drop"] = lambda x: x.at[jnp.array([0, 9])].set(0.1, mode="drop") + x.at[jnp.array([1, 9])].add(0.7, mode="drop")
    S["static_nan_to_num"] = lambda x: jnp.nan_to_num(jnp.log(x), nan=0.1, neginf=-0.7, posinf=0.3)
    S["static_activation_params"] = lambda x: jax.nn.leaky_relu(x, 0.1) + jax.nn.elu(x, 0.7) + jax.nn.gelu(x, False) * 0.3
    S["static_celu_param"] = lambda x: jax.nn.celu(x, 0.3)
    S["static_select_default_and_piecewise"] = lambda x: jnp.select([x > 0.7, x > 0.1], [x, x * 0.3], default=0.1) + jnp.piecewise(x, [x < 0.1, x >= 0.1], [0.7, lambda v: v * 0.3])
    S["static_full_like_and_tri"] = lambda x: jnp.full_like(x, 0.1) + jnp.tril(jnp.full((3, 3), 0.7)) @ x + jnp.eye(3) @ x * 0.3
    S["static_dynamic_update_slice_const"] = lambda x: lax.dynamic_update_slice(x, jnp.full((1,), 0.1), (1,)) + lax.pad(x, 0.7, [(1, 0, 0)])[:3]
    S["static_clamp_round_sign"] = lambda x: lax.clamp(0.1, x, 0.7) + jnp.round(x * 3.3, 1) + jnp.sign(x) * 0.3
    S["static_cumulative_and_logsumexp_b"] = lambda x: jnp.cumsum(x * 0.1) + jax.nn.logsumexp(x, b=0.7)
    S["full_ones_like"] = lambda x: x + jnp.full((3,), C) + jnp.ones_like(x) * (1.0 / 3.0)
    return S


def _x64_factories() -> dict[str, Any]:
    """Programs that close over jnp arrays CREATED while x64 is enabled (float64 device arrays)."""
    import jax.numpy as jnp
    from jax import lax

    def top():
        c = jnp.asarray(np.array([0.1, 0.2, 0.3]))
        return lambda x: x + c

    def scalar():
        c = jnp.float64(0.1)
        return lambda x: x * c

    def in_fori():
        c = jnp.asarray(np.array([0.1, 0.2, 0.3]))
        return lambda x: lax.fori_loop(0, 3, lambda i, v: v * c + 0.1, x)

    def in_cond():
        c = jnp.asarray(np.array([0.1, 0.2, 0.3]))
        return lambda x: lax.cond(jnp.sum(x) > 0, lambda v: v + c, lambda v: v - c, x)

    def int64_index():
        idx = jnp.asarray(np.array([2, 0, 1]))
        return lambda x: x[idx] * 2.0

    return {"x64only_jnp64_array_top": top, "x64only_jnp64_scalar": scalar, "x64only_jnp64_array_in_fori": in_fori, "x64only_jnp64_array_in_cond": in_cond, "x64only_int64_index": int64_index}


def _onnx_fn_sentinel():
    from vlib import fnmods

    return fnmods.c09_outer, fnmods.c09_plain


# ----------------------------------------------------------------------------


def enumerate_cases(tier: str, seed: int) -> list[dict[str, Any]]:
    cases: list[dict[str, Any]] = []
    per_family: dict[tuple[str, bool], int] = {}
    for tp in registry.corpus():
        heavy = registry.is_heavy(tp)
        if tier == "quick":
            if heavy:
                continue
            k = (tp["_family"], tp["_dp"])
            n = per_family.get(k, 0)
            per_family[k] = n + 1
            if n >= (2 if not tp["_dp"] else 1):
                continue
        c = {"key": f"reg:{tp['_pid']}", "src": "registry", "pid": tp["_pid"], "cost": 30.0 if heavy else 1.0}
        if heavy:
            c["timeout"] = 900
        cases.append(c)
    for name in _x64_factories():
        cases.append({"key": f"sent:{name}@single_x64_preenabled", "src": "sentinel", "name": name, "mode": "single_x64_preenabled", "cost": 0.5})
    for name in list(_sentinels()) + ["onnx_function_body", "close_instances_unique", "close_instances_shared", "close_instances_plain"]:
        for mode in ("single", "double", "single_x64_preenabled"):
            cases.append({"key": f"sent:{name}@{mode}", "src": "sentinel", "name": name, "mode": mode, "cost": 0.5})
    for init in (False, True):
        for dp in (False, True):
            for outcome in ("ok", "raise_trace", "raise_unsupported", "raise_base_exception", "raise_system_exit", "allclose"):
                cases.append({"key": f"flag:x64init={int(init)},dp={int(dp)},{outcome}", "src": "flag", "init": init, "dp": dp, "outcome": outcome, "cost": 0.3})
    return recs.only_filter(cases)


def _check_single(model, fam, pid, rec) -> None:
    sites = double_sites(model)
    rec["obs"]["single_precision_models_scanned"] = 1
    rec["obs"]["tensors_and_annotations_scanned"] = sum(1 for _ in modelwalk.iter_all_tensors(model)) + sum(
        1 for _ in modelwalk.iter_all_value_infos(model)
    )
    if sites:
        rec["violations"].append(
            {"family": fam, "program": pid, "kind": "double_in_single", "cls": "single", "text": f"{pid}: DOUBLE in a single-precision export: {sites[:3]} ({len(sites)} sites)"}
        )


def _check_double(prog: programs.Program, seed: int, rec: dict[str, Any]) -> None:
    """ORT(double export) vs JAX-x64 at double-precision accuracy."""
    fn = prog.make_fn()
    sig = prog.signature({s: 2 for s in prog.symbols})
    try:
        ok, why = _only_f64_floats(fn, sig, prog.params)
    except Exception as exc:  # noqa: BLE001
        rec["obs"]["double_precondition_undecidable"] = 1
        return
    if not ok:
        rec["obs"]["double_precondition_fails(callable uses narrower floats itself)"] = 1
        return
    draws = [("benign", "benign"), ("f64only", "benign"), ("uniform", "benign")]
    res = programs.differential(prog, draws, seed=seed, eps_floor=EPS64, K=K64)
    if res.get("model") is not None:
        sus = f32_rounded_constants(res["model"])
        rec["obs"]["double_models_scanned_for_f32_rounded_constants"] = 1
        if sus:
            rec["violations"].append({"family": prog.family, "program": prog.pid, "kind": "f32_rounded_constant", "cls": "double", "text": f"{prog.pid}: DOUBLE constant(s) that are float32-rounded values: {sus[:3]}"})
    if res.get("random"):
        rec["obs"]["random_model_skipped"] = 1
        return
    r2 = recs.record_from_differential(prog, res, tag="double:")
    if r2.get("status") == "inconclusive":
        rec["obs"]["double_" + r2.get("reason", "inconclusive")] = 1
        return
    rec["evals"] += r2["evals"]
    rec["nontrivial"] += r2["nontrivial"]
    for v in r2["violations"]:
        v["kind"] = "f32_detour:" + v["kind"] if v["kind"] in ("value", "nonfinite") else v["kind"]
        v["cls"] = "double"
        rec["violations"].append(v)
    for k, v in r2["obs"].items():
        rec["obs"]["double_" + k] = v
    if "sample" in r2 and "sample" not in rec:
        rec["sample"] = r2["sample"]


def _flag_case(case: dict[str, Any]) -> dict[str, Any]:
    import jax
    import jax.numpy as jnp
    from jax2onnx import allclose, to_onnx

    rec: dict[str, Any] = {"evals": 0, "nontrivial": [], "violations": [], "obs": {}}
    init, dp, outcome = case["init"], case["dp"], case["outcome"]
    prev = bool(jax.config.jax_enable_x64)
    jax.config.update("jax_enable_x64", init)
    try:
        raised = None
        if outcome == "ok":
            to_onnx(lambda x: jnp.tanh(x) * 0.1, [(3,)], enable_double_precision=dp)
        elif outcome == "raise_trace":

            def boom(x):
                raise RuntimeError("user function fails while being traced")

            try:
                to_onnx(boom, [(3,)], enable_double_precision=dp)
            except RuntimeError as exc:
                raised = exc
        elif outcome in ("raise_base_exception", "raise_system_exit"):

            class _Abort(BaseException):
                pass

            def abort(x):
                raise (_Abort("the call is abandoned while tracing") if outcome == "raise_base_exception" else SystemExit(3))

            try:
                to_onnx(abort, [(3,)], enable_double_precision=dp)
            except BaseException as exc:  # noqa: BLE001
                raised = exc
        elif outcome == "raise_unsupported":
            from jax.extend.core import Primitive

            p = Primitive("c09_unregistered_prim")
            p.def_impl(lambda x: x)
            p.def_abstract_eval(lambda x: x)
            try:
                to_onnx(lambda x: p.bind(x) + 1, [(3,)], enable_double_precision=dp)
            except Exception as exc:  # noqa: BLE001
                raised = exc
        else:
            d = tempfile.mkdtemp(prefix="c09_")
            try:
                path = os.path.join(d, "m.onnx")
                f = lambda x: jnp.tanh(x) * 0.1  # noqa: E731
                to_onnx(f, [(3,)], enable_double_precision=dp, return_mode="file", output_path=path)
                after_export = bool(jax.config.jax_enable_x64)
                if after_export != init:
                    rec["violations"].append({"family": "x64_flag", "kind": "flag_changed", "cls": case["key"], "text": f"to_onnx(file) left jax_enable_x64={after_export}, was {init}"})
                x = np.array([0.1, 0.2, 0.3], np.float64 if dp else np.float32)
                ok, msg = allclose(f, path, [x], enable_double_precision=dp)
                rec["obs"]["allclose_calls"] = 1
                # a failing allclose (model missing) must also restore
                try:
                    allclose(f, os.path.join(d, "missing.onnx"), [x], enable_double_precision=dp)
                except Exception:  # noqa: BLE001
                    rec["obs"]["allclose_raising_calls"] = 1
            finally:
                import shutil

                shutil.rmtree(d, ignore_errors=True)
        after = bool(jax.config.jax_enable_x64)
        rec["evals"] = 1
        if outcome.startswith("raise") and raised is None:
            rec["obs"]["expected_raise_did_not_happen"] = 1
        else:
            rec["nontrivial"].append(case["key"])
        if after != init:
            rec["violations"].append({"family": "x64_flag", "kind": "flag_changed", "cls": case["key"], "text": f"jax_enable_x64 is {after} after the call, was {init} ({case['key']})"})
        rec["status"] = "violated" if rec["violations"] else "held"
        rec["sample"] = {"case": case["key"], "x64_before": init, "x64_after": after, "raised": type(raised).__name__ if raised else None}
        return rec
    finally:
        jax.config.update("jax_enable_x64", prev)


def run_case(case: dict[str, Any], tier: str, seed: int) -> dict[str, Any]:
    import jax

    if case["src"] == "flag":
        return _flag_case(case)
    rec: dict[str, Any] = {"evals": 0, "nontrivial": [], "violations": [], "obs": {}}
    x64_before = bool(jax.config.jax_enable_x64)
    if case["src"] == "registry":
        tp = registry.by_pid(case["pid"])
        prog = programs.from_registry(tp)
        if not prog.dp:
            try:
                model = prog.export()
            except Exception as exc:  # noqa: BLE001
                return {"status": "inconclusive", "reason": "export_raises", "detail": str(exc)[:200]}
            rec["evals"] = 1
            if len(model.graph.node) or len(model.graph.initializer):
                rec["nontrivial"].append(prog.pid + "|single")
            _check_single(model, prog.family, prog.pid, rec)
            rec["sample"] = {"program": prog.pid, "mode": "single", "double_sites": 0 if not rec["violations"] else "see violation"}
        else:
            if prog.numeric:
                _check_double(prog, seed, rec)
            else:
                rec["obs"]["numeric_skipped_by_metadata"] = 1
    else:
        name, mode = case["name"], case["mode"]
        if name == "onnx_function_body":
            fn_dec, fn_plain = _onnx_fn_sentinel()
            mk_export, mk_ref = (lambda: fn_dec), (lambda: fn_plain)
        elif name.startswith("close_instances_"):
            from vlib import fnmods

            cls = {"close_instances_unique": fnmods.C09UniqueScale, "close_instances_shared": fnmods.C09Scale, "close_instances_plain": fnmods.C09PlainScale}[name]
            fe, fr = fnmods.c09_close_instances(cls), fnmods.c09_close_instances(fnmods.C09PlainScale)
            mk_export, mk_ref = (lambda: fe), (lambda: fr)
        elif name.startswith("x64only_"):
            import jax as _j0

            _j0.config.update("jax_enable_x64", True)
            f = _x64_factories()[name]()
            mk_export = mk_ref = lambda: f
        else:
            f = _sentinels()[name]
            mk_export = mk_ref = lambda: f
        dp = mode == "double"
        dt = np.float64 if dp else np.float32
        if mode == "single_x64_preenabled":
            import jax as _j

            _j.config.update("jax_enable_x64", True)
            x64_before = True

        class _P(programs.Program):
            pass

        import jax as _jax

        prog = programs.Program(
            pid=case["key"],
            family=f"sentinel/{name}",
            make_fn=mk_ref,
            specs=lambda: [_jax.ShapeDtypeStruct((3,), dt)],
            signature=lambda b: [((3,), np.dtype(dt))],
            dp=dp,
            source="sentinel",
        )
        if not dp:
            try:
                model = prog.export(fn=mk_export())
            except Exception as exc:  # noqa: BLE001
                return {"status": "inconclusive", "reason": "export_raises", "detail": str(exc)[:200]}
            rec["evals"] = 1
            rec["nontrivial"].append(prog.pid)
            _check_single(model, prog.family, prog.pid, rec)
            rec["sample"] = {"program": prog.pid, "mode": "single"}
        else:
            try:
                model = prog.export(fn=mk_export())
            except Exception as exc:  # noqa: BLE001
                return {"status": "inconclusive", "reason": "export_raises", "detail": str(exc)[:200]}
            sus = f32_rounded_constants(model)
            rec["obs"]["double_models_scanned_for_f32_rounded_constants"] = 1
            if sus:
                rec["violations"].append({"family": prog.family, "program": prog.pid, "kind": "f32_rounded_constant", "cls": "double", "text": f"{prog.pid}: DOUBLE constant(s) that are float32-rounded values: {sus[:3]}"})
            draws = [("benign", "benign"), ("f64only", "benign"), ("uniform", "benign")]
            res = programs.differential(prog, draws, seed=seed, eps_floor=EPS64, K=K64, model=model)
            r2 = recs.record_from_differential(prog, res, tag="double:")
            rec["evals"] += r2.get("evals", 0)
            rec["nontrivial"] += r2.get("nontrivial", [])
            for v in r2.get("violations", []):
                v["kind"] = "f32_detour:" + v["kind"] if v["kind"] in ("value", "nonfinite") else v["kind"]
                v["cls"] = "double"
                rec["violations"].append(v)
            if "sample" in r2:
                rec["sample"] = r2["sample"]
    x64_after = bool(jax.config.jax_enable_x64)
    if case.get("mode") == "single_x64_preenabled":
        jax.config.update("jax_enable_x64", False)
        if x64_after is not True:
            rec["violations"].append({"family": "x64_flag", "kind": "flag_changed", "cls": "x64_preenabled", "text": f"{case['key']}: jax_enable_x64 was True before the single-precision export and is {x64_after} after it"})
        x64_after = x64_before = False
    if x64_after != x64_before:
        rec["violations"].append({"family": "x64_flag", "kind": "flag_changed", "cls": "during_corpus", "text": f"{case['key']}: jax_enable_x64 {x64_before} -> {x64_after}"})
        jax.config.update("jax_enable_x64", x64_before)
    rec["obs"]["x64_flag_checked_around_call"] = 1
    rec["status"] = "violated" if rec["violations"] else "held"
    return rec
