"""C06 — control flow is preserved for every branch choice and trip count."""

from __future__ import annotations

from typing import Any

import numpy as np

from vlib import oracle, ortrun, programs, recs, registry
from vlib.substrate import stable_hash

F32 = np.float32
I32 = np.int32


def _family() -> dict[str, dict[str, Any]]:
    """name -> {fn, sig:[(shape,dtype)], steer: list of feeds (list of arrays) or callable(rng)->list}"""
    import jax
    import jax.numpy as jnp
    from jax import lax

    P: dict[str, dict[str, Any]] = {}
    v3 = np.array([0.3, -0.2, 0.5], F32)
    K = np.array([[0.5, -0.25, 0.1], [0.2, 0.3, -0.4], [0.1, 0.1, 0.1]], F32)

    def add(name, fn, sig, steer, **kw):
        P[name] = {"fn": fn, "sig": sig, "steer": steer, **kw}

    xs3 = lambda: [np.array([0.3, -0.2, 0.5], F32), np.array([-0.3, -0.2, -0.5], F32), np.zeros(3, F32), np.array([1e-3, -1e-3, 0.0], F32)]  # noqa: E731
    # ---- cond -------------------------------------------------------------
    add("cond_bool_pred", lambda p, x: lax.cond(p, lambda v: v * 2 + 1, lambda v: v - 3, x), [((), np.bool_), ((3,), F32)], [[np.bool_(b), x] for b in (True, False) for x in xs3()[:2]])
    add("cond_sum_pred", lambda x: lax.cond(jnp.sum(x) > 0, lambda v: jnp.tanh(v), lambda v: v * v, x), [((3,), F32)], [[x] for x in xs3()])
    add("cond_int_pred", lambda n, x: lax.cond(n % 2 == 0, lambda v: v + 1, lambda v: v * 3, x), [((), I32), ((3,), F32)], [[I32(n), v3] for n in (-3, -2, 0, 1, 2, 7)])
    add("cond_captured_const_and_tracer", lambda x, y: lax.cond(jnp.max(x) > 0.1, lambda v: v @ K + y, lambda v: v - y * 2, x), [((3,), F32), ((3,), F32)], [[x, v3] for x in xs3()])
    add("cond_passthrough_branch", lambda x: lax.cond(x[0] > 0, lambda v: v, lambda v: -v, x), [((3,), F32)], [[x] for x in xs3()])
    add("cond_two_outputs", lambda x: lax.cond(x[0] > 0, lambda v: (v + 1, v.sum()), lambda v: (v * 2, v.min()), x), [((3,), F32)], [[x] for x in xs3()])
    add("cond_operands_tuple", lambda x, y: lax.cond(jnp.sum(x) > jnp.sum(y), lambda a, b: a - b, lambda a, b: a * b, x, y), [((3,), F32), ((3,), F32)], [[x, v3] for x in xs3()])
    add("cond_nested", lambda x: lax.cond(x[0] > 0, lambda v: lax.cond(v[1] > 0, lambda u: u + 10, lambda u: u - 10, v), lambda v: v * 0.5, x), [((3,), F32)], [[np.array(a, F32)] for a in ([1, 1, 0], [1, -1, 0], [-1, 1, 0], [-1, -1, 0])])
    add("cond_captures_transposed_operand", lambda p, x: (lambda y: lax.cond(p, lambda v: v * 2.0, lambda v: -v, y).sum() + jnp.transpose(y, (0, 2, 1)))(jnp.transpose(x, (0, 2, 1))), [((), np.bool_), ((2, 3, 4), F32)], [[np.bool_(b), (np.arange(24, dtype=F32).reshape(2, 3, 4) - 11) / 7] for b in (True, False)])
    add("cond_captures_reshaped_operand", lambda p, x: (lambda y: lax.cond(p, lambda v: jnp.tanh(v), lambda v: v * 0.5, y).sum() + jnp.tanh(y).reshape(2, 3, 4))(x.reshape(6, 4)), [((), np.bool_), ((2, 3, 4), F32)], [[np.bool_(b), (np.arange(24, dtype=F32).reshape(2, 3, 4) - 11) / 7] for b in (True, False)])
    add("fori_captures_transposed_operand", lambda x: (lambda y: lax.fori_loop(0, 2, lambda i, v: v + y.sum(0), jnp.zeros((4, 2), x.dtype)).sum() + jnp.transpose(y, (2, 0, 1)))(jnp.transpose(x, (1, 2, 0))), [((2, 3, 4), F32)], [[(np.arange(24, dtype=F32).reshape(2, 3, 4) - 11) / 7]])
    add("cond_only_consumer_of_transpose", lambda p, x: lax.cond(p, lambda v: v * 2.0, lambda v: -v, jnp.transpose(x, (1, 0))), [((), np.bool_), ((3, 4), F32)], [[np.bool_(b), (np.arange(12, dtype=F32).reshape(3, 4) - 5) / 7] for b in (True, False)])
    add("while_only_consumer_of_transpose", lambda x: lax.while_loop(lambda s: s[0] < 2, lambda s: (s[0] + 1, s[1] + jnp.transpose(x, (1, 0))), (jnp.int32(0), jnp.zeros((4, 3), x.dtype)))[1], [((3, 4), F32)], [[(np.arange(12, dtype=F32).reshape(3, 4) - 5) / 7]])
    add("scan_only_consumer_of_reshape", lambda x: lax.scan(lambda c, r: (c + r, c), jnp.zeros((6,), x.dtype), jnp.tanh(x).reshape(2, 6))[0], [((3, 4), F32)], [[(np.arange(12, dtype=F32).reshape(3, 4) - 5) / 7]])
    add("switch_two_way", lambda i, x: lax.switch(i, [lambda v: v + 1, lambda v: v * 2], x), [((), I32), ((3,), F32)], [[I32(i), v3] for i in (0, 1, -1, 2, 5)])
    add("where_vs_cond_int_output", lambda x: lax.cond(jnp.sum(x) > 0, lambda v: jnp.argmax(v), lambda v: jnp.argmin(v), x), [((3,), F32)], [[x] for x in xs3()[:2]])
    # ---- while_loop ---------------------------------------------------------
    add("while_counter", lambda n, x: lax.while_loop(lambda s: s[0] < n, lambda s: (s[0] + 1, s[1] * 1.5 + 1), (jnp.int32(0), x))[1], [((), I32), ((3,), F32)], [[I32(n), v3] for n in (-3, 0, 1, 2, 5, 17)])
    add("while_data_dependent_exit", lambda x: lax.while_loop(lambda s: (jnp.sum(jnp.abs(s[1])) < 50.0) & (s[0] < 40), lambda s: (s[0] + 1, s[1] * 2 + 0.5), (jnp.int32(0), x)), [((3,), F32)], [[np.array(a, F32)] for a in ([100, 0, 0], [20, 5, 1], [1, 1, 1], [0.01, 0, 0], [0, 0, 0])])
    add("while_threshold_stops_after_k", lambda t, x: lax.while_loop(lambda s: s[1][0] < t, lambda s: (s[0] + 1, s[1] + 1.0), (jnp.int32(0), x)), [((), F32), ((3,), F32)], [[F32(t), np.zeros(3, F32)] for t in (-1.0, 0.0, 0.5, 1.0, 3.5, 12.0)])
    add("while_captured_array", lambda n, x: lax.while_loop(lambda s: s[0] < n, lambda s: (s[0] + 1, s[1] @ K + v3), (jnp.int32(0), x))[1], [((), I32), ((3,), F32)], [[I32(n), v3] for n in (0, 1, 3, 6)])
    add("while_multi_carry_ranks", lambda n, x, m: lax.while_loop(lambda s: s[0] < n, lambda s: (s[0] + 1, s[1] + s[2].sum(0), s[2] * 0.9, s[3] + s[1].sum()), (jnp.int32(0), x, m, jnp.float32(0.0)))[1:], [((), I32), ((3,), F32), ((2, 3), F32)], [[I32(n), v3, np.ones((2, 3), F32)] for n in (0, 1, 4)])
    # cond_fun and body_fun each close over a *traced* value; the captures differ in shape / dtype
    add("while_cond_captures_scalar_body_captures_matrix", lambda t, inc, x: lax.while_loop(lambda s: (jnp.sum(s[1]) < t) & (s[0] < 30), lambda s: (s[0] + 1, s[1] + inc), (jnp.int32(0), x))[1],
        [((), F32), ((2, 3), F32), ((2, 3), F32)], [[F32(t), np.full((2, 3), 1.5, F32), np.zeros((2, 3), F32)] for t in (-1.0, 20.0, 37.5, 1e6)])
    add("while_cond_captures_int_body_captures_float", lambda n, inc, x: lax.while_loop(lambda s: s[0] < n, lambda s: (s[0] + 1, s[1] * inc), (jnp.int32(0), x))[1],
        [((), I32), ((3,), F32), ((3,), F32)], [[I32(n), np.array([1.5, 0.5, -1.0], F32), v3] for n in (0, 1, 4)])
    add("while_two_cond_captures_two_body_captures", lambda n, t, a, b, x: lax.while_loop(lambda s: (s[0] < n) & (jnp.max(s[1]) < t), lambda s: (s[0] + 1, s[1] * a + b.sum(0)), (jnp.int32(0), x))[1],
        [((), I32), ((), F32), ((3,), F32), ((2, 3), F32), ((3,), F32)], [[I32(n), F32(50.0), np.array([1.5, 0.5, -1.0], F32), np.ones((2, 3), F32), v3] for n in (0, 2, 5)])
    add("fori_body_captures_matrix_and_scalar", lambda a, c, x: lax.fori_loop(0, 3, lambda i, s: (s[0] @ s[1] + s[2], s[1], s[2]), (x, a, c))[0], [((3, 3), F32), ((), F32), ((3,), F32)], [[K, F32(0.5), v3]])
    add("scan_body_captures_two_shapes", lambda a, c, xs: lax.scan(lambda carry, r: (carry @ a + r * c, carry.sum()), jnp.zeros((3,), xs.dtype), xs), [((3, 3), F32), ((), F32), ((4, 3), F32)], [[K, F32(0.5), np.arange(12, dtype=F32).reshape(4, 3) / 10]])
    add("while_float_counter", lambda x: lax.while_loop(lambda s: s < 10.0, lambda s: s * 1.7 + 0.1, jnp.abs(x).sum() + 0.01), [((3,), F32)], [[np.array(a, F32)] for a in ([20, 0, 0], [5, 0, 0], [0.1, 0, 0], [0, 0, 0])])
    add("while_in_cond", lambda p, n, x: lax.cond(p, lambda v: lax.while_loop(lambda s: s[0] < n, lambda s: (s[0] + 1, s[1] * 1.2), (jnp.int32(0), v))[1], lambda v: v - 1, x), [((), np.bool_), ((), I32), ((3,), F32)], [[np.bool_(b), I32(n), v3] for b in (True, False) for n in (0, 3)])
    add("cond_in_while", lambda n, x: lax.while_loop(lambda s: s[0] < n, lambda s: (s[0] + 1, lax.cond(s[0] % 2 == 0, lambda v: v + 1.0, lambda v: v * 2.0, s[1])), (jnp.int32(0), x))[1], [((), I32), ((3,), F32)], [[I32(n), v3] for n in (0, 1, 2, 5)])
    add("while_nested", lambda n, m, x: lax.while_loop(lambda s: s[0] < n, lambda s: (s[0] + 1, lax.while_loop(lambda t: t[0] < m, lambda t: (t[0] + 1, t[1] * 1.1 + 0.1), (jnp.int32(0), s[1]))[1]), (jnp.int32(0), x))[1], [((), I32), ((), I32), ((3,), F32)], [[I32(n), I32(m), v3] for n, m in ((0, 0), (0, 3), (2, 0), (1, 1), (3, 2))])
    add("while_vmapped", lambda x: jax.vmap(lambda r: lax.while_loop(lambda s: (s[1].sum() < 4.0) & (s[0] < 20), lambda s: (s[0] + 1, s[1] + 0.7), (jnp.int32(0), r))[1])(x), [((3, 2), F32)], [[np.array(a, F32)] for a in ([[0, 0], [1, 1], [5, 5]], [[9, 9], [9, 9], [9, 9]], [[0, 0], [0, 0], [0, 0]])])
    add("while_vmapped_nonmonotone_exit", lambda x: jax.vmap(lambda v: lax.while_loop(lambda s: (s != 3) & (s < 6), lambda s: s + 1, v))(x), [((4,), I32)], [[np.array(a, I32)] for a in ([1, 1, 1, 1], [3, 5, 1, 2], [0, 2, 3, 4], [6, 7, 3, 3])])
    add("while_vmapped_nonmonotone_two_carries", lambda x: jax.vmap(lambda v: lax.while_loop(lambda s: (s[0] != 3) & (s[0] < 6), lambda s: (s[0] + 1, s[1] + 1.5), (v, jnp.float32(0.0))))(x), [((4,), I32)], [[np.array(a, I32)] for a in ([3, 5, 1, 2], [0, 2, 3, 4])])
    add("while_vmapped_float_band_exit", lambda x: jax.vmap(lambda v: lax.while_loop(lambda s: ((s < 2.0) | (s > 3.0)) & (s < 8.0), lambda s: s + 1.25, v))(x), [((4,), F32)], [[np.array(a, F32)] for a in ([0.0, 1.0, 2.5, 7.0], [0.9, 3.5, 9.0, -1.0])])
    # ---- fori_loop ----------------------------------------------------------
    for lo, hi in ((0, 0), (0, 1), (0, 4), (2, 5), (3, 3), (5, 2), (-2, 1)):
        add(f"fori_static_{lo}_{hi}", (lambda lo, hi: lambda x: lax.fori_loop(lo, hi, lambda i, v: v * 1.1 + i, x))(lo, hi), [((3,), F32)], [[v3], [np.zeros(3, F32)]])
    add("fori_index_used_in_slice", lambda x: lax.fori_loop(0, 3, lambda i, v: v.at[i].add(i * 1.0 + 1), x), [((3,), F32)], [[v3]])
    add("fori_two_carries", lambda x: lax.fori_loop(1, 4, lambda i, s: (s[0] + s[1], s[1] * 0.5 + i), (x, x * 2)), [((3,), F32)], [[v3]])
    add("fori_captures_input", lambda x, y: lax.fori_loop(0, 3, lambda i, v: v @ K + y, x), [((3,), F32), ((3,), F32)], [[v3, v3 * 2]])
    add("fori_nested", lambda x: lax.fori_loop(0, 2, lambda i, v: lax.fori_loop(0, 3, lambda j, u: u + i * 3 + j, v), x), [((3,), F32)], [[v3]])
    add("fori_in_cond_branch", lambda p, x: lax.cond(p, lambda v: lax.fori_loop(0, 3, lambda i, u: u * 1.5, v), lambda v: v, x), [((), np.bool_), ((3,), F32)], [[np.bool_(b), v3] for b in (True, False)])
    add("fori_int_carry", lambda x: lax.fori_loop(0, 5, lambda i, s: (s[0] + i, s[1] + 1.0), (jnp.int32(0), x)), [((3,), F32)], [[v3]])
    # ---- scan -----------------------------------------------------------------
    for L in (0, 1, 2, 5):
        add(f"scan_xs_len{L}", lambda xs: lax.scan(lambda c, r: (c * 0.9 + r, c - r), jnp.zeros((3,), xs.dtype), xs), [((L, 3), F32)], [[(np.arange(L * 3, dtype=F32).reshape(L, 3) - 2) / 4]])
        add(f"scan_no_xs_len{L}", (lambda L: lambda x: lax.scan(lambda c, _: (c * 1.1 + 0.1, c.sum()), x, None, length=L))(L), [((3,), F32)], [[v3]])
    add("scan_two_xs_different_trailing", lambda a, b: lax.scan(lambda c, ab: (c + ab[0].sum() + ab[1], (ab[0] * c, ab[1] - c)), jnp.float32(0.0), (a, b)), [((4, 3), F32), ((4,), F32)], [[np.arange(12, dtype=F32).reshape(4, 3) / 10, np.arange(4, dtype=F32) / 3]])
    add("scan_carry_tuple", lambda xs: lax.scan(lambda c, r: ((c[0] + r, c[1] * 0.5 + r.sum()), c[0] * c[1]), (jnp.zeros((3,), xs.dtype), jnp.float32(1.0)), xs), [((4, 3), F32)], [[np.arange(12, dtype=F32).reshape(4, 3) / 10]])
    add("scan_symbolic_length", lambda xs: lax.scan(lambda c, r: (c + r, c * r), jnp.zeros((3,), xs.dtype), xs)[1], [(("B", 3), F32)], [[np.arange(L * 3, dtype=F32).reshape(L, 3) / 5] for L in (1, 2, 5, 9)])
    add("scan_in_cond", lambda p, xs: lax.cond(p, lambda v: lax.scan(lambda c, r: (c + r, c), jnp.zeros((3,), v.dtype), v)[1], lambda v: v * 2, xs), [((), np.bool_), ((4, 3), F32)], [[np.bool_(b), np.arange(12, dtype=F32).reshape(4, 3) / 10] for b in (True, False)])
    add("cond_in_scan", lambda xs: lax.scan(lambda c, r: (lax.cond(r.sum() > 0, lambda u: u + r, lambda u: u - r, c), c.sum()), jnp.zeros((3,), xs.dtype), xs), [((4, 3), F32)], [[(np.arange(12, dtype=F32).reshape(4, 3) - 6) / 5]])
    add("scan_nested", lambda xs: lax.scan(lambda c, r: (c + lax.scan(lambda d, q: (d + q, d), jnp.float32(0.0), r)[0], c), jnp.float32(0.0), xs), [((3, 4), F32)], [[np.arange(12, dtype=F32).reshape(3, 4) / 7]])
    add("scan_captures", lambda xs, y: lax.scan(lambda c, r: (c @ K + r + y, c * y), jnp.zeros((3,), xs.dtype), xs), [((4, 3), F32), ((3,), F32)], [[np.arange(12, dtype=F32).reshape(4, 3) / 10, v3]])
    add("scan_int_xs", lambda xs: lax.scan(lambda c, i: (c + i, c * 2), jnp.int32(0), xs), [((5,), I32)], [[np.array([3, -1, 4, 1, -5], I32)]])
    add("scan_while_inside", lambda xs: lax.scan(lambda c, r: (lax.while_loop(lambda s: s < 3.0, lambda s: s * 2 + 0.25, jnp.abs(r) + 0.1) + c, c), jnp.float32(0.0), xs), [((4,), F32)], [[np.array([0.1, 5.0, 1.0, 0.0], F32)]])
    return P


UNSUPPORTED = ["switch_3way", "scan_reverse", "scan_reverse_no_xs_ys", "scan_reverse_no_xs_carry", "fori_traced_upper", "function_in_loop_body"]


def _unsupported(name: str):
    import jax.numpy as jnp
    from jax import lax

    v = [((3,), F32)]
    if name == "switch_3way":
        return (lambda i, x: lax.switch(i, [lambda v: v + 1, lambda v: v * 2, lambda v: -v], x)), [((), I32), ((3,), F32)], [[I32(i), np.array([0.3, -0.2, 0.5], F32)] for i in (0, 1, 2, -1, 4)]
    if name == "scan_reverse":
        return (lambda xs: lax.scan(lambda c, r: (c + r, c * r), jnp.zeros((3,), xs.dtype), xs, reverse=True)), [((4, 3), F32)], [[np.arange(12, dtype=F32).reshape(4, 3) / 10]]
    if name == "scan_reverse_no_xs_ys":
        return (lambda x: lax.scan(lambda c, _: (c * 0.5 + 1.0, c * 2.0), x, None, length=4, reverse=True)), v, [[np.array([0.3, -0.2, 0.5], F32)]]
    if name == "scan_reverse_no_xs_carry":
        return (lambda x: lax.scan(lambda c, _: (c * 0.5 + 1.0, None), x, None, length=4, reverse=True)[0]), v, [[np.array([0.3, -0.2, 0.5], F32)]]
    if name == "fori_traced_upper":
        return (lambda n, x: lax.fori_loop(0, n, lambda i, u: u * 1.5 + 1, x)), [((), I32), ((3,), F32)], [[I32(n), np.array([0.3, -0.2, 0.5], F32)] for n in (0, 1, 4)]
    from vlib import fnmods

    return fnmods.c06_loop_with_function, v, [[np.array([0.3, -0.2, 0.5], F32)]]


def enumerate_cases(tier: str, seed: int) -> list[dict[str, Any]]:
    cases = []
    for name in _family():
        for dp in (False, True) if tier == "thorough" else (False,):
            cases.append({"key": f"cf:{name}#{'f64' if dp else 'f32'}", "src": "cf", "name": name, "dp": dp, "cost": 1.0})
    for name in UNSUPPORTED:
        cases.append({"key": f"unsupported:{name}", "src": "unsupported", "name": name, "cost": 1.0})
    per: dict[str, int] = {}
    for tp in registry.corpus():
        fam = tp["_family"]
        if not any(k in fam for k in ("lax/cond", "lax/while_loop", "lax/fori_loop", "lax/scan", "lax/switch", "examples.lax", "examples.jnp/issue18", "examples.jnp/fori")):
            continue
        if registry.is_heavy(tp) or (tier == "quick" and (tp["_dp"] or per.get(fam, 0) >= 4)):
            continue
        per[fam] = per.get(fam, 0) + 1
        cases.append({"key": f"reg:{tp['_pid']}", "src": "registry", "pid": tp["_pid"], "cost": 1.0})
    return recs.only_filter(cases)


def _run_steer(fn, sig, feeds, dp, name, rec, fam, expect_export=True) -> str:
    import jax
    from jax2onnx.user_interface import to_onnx

    def cast(a):
        a = np.asarray(a)
        return a.astype(np.float64) if dp and a.dtype == np.float32 else a

    specs = []
    for shape, dt in sig:
        dt = np.float64 if dp and dt == np.float32 else dt
        if any(isinstance(d, str) for d in shape):
            specs.append(jax.ShapeDtypeStruct(tuple(shape), dt))
        else:
            specs.append(jax.ShapeDtypeStruct(tuple(shape), dt))
    feeds = [[cast(a) for a in f] for f in feeds]
    refs = []
    for f in feeds:
        try:
            refs.append(registry.eval_jax(fn, f, {}, dp))
        except Exception:  # noqa: BLE001
            refs.append(None)
    try:
        model = to_onnx(fn, specs, enable_double_precision=dp)
    except Exception as exc:  # noqa: BLE001
        return f"raised {type(exc).__name__}: {str(exc)[:120]}"
    try:
        sess = ortrun.session(model)
    except ortrun.OrtEnvLimit:
        return "env_limit"
    except ortrun.OrtLoadError as exc:
        rec["violations"].append({"family": fam, "kind": "invalid_model", "cls": "load", "text": f"{name}: ORT refuses the exported control-flow model: {str(exc)[:250]}"})
        return "exported"
    for f, ref in zip(feeds, refs):
        if ref is None:
            continue
        steer = ",".join(str(np.asarray(a).tolist())[:28] for a in f if np.asarray(a).ndim == 0 or np.asarray(a).size <= 6)[:90]
        try:
            got = ortrun.run(sess, ortrun.build_feed(sess, f))
        except ortrun.OrtRunError as exc:
            rec["violations"].append({"family": fam, "kind": "ort_error", "cls": steer, "text": f"{name} [steering {steer}]: ORT raises: {str(exc)[:250]}"})
            continue
        rng = np.random.default_rng(1)
        lazy = oracle.make_lazy(lambda: fn, f, {}, dp, rng, registry.eval_jax)
        c = oracle.compare(ref, got, lazy=lazy)
        rec["evals"] += 1
        if c.ok or c.unstable_only:
            rec["nontrivial"].append(f"{name}|{steer}")
        else:
            rec["violations"].append({"family": fam, "kind": c.kind or "value", "cls": steer, "text": f"{name} [steering {steer}]: {c.text}"})
    return "exported"


def run_case(case: dict[str, Any], tier: str, seed: int) -> dict[str, Any]:
    rec: dict[str, Any] = {"evals": 0, "nontrivial": [], "violations": [], "obs": {}}
    if case["src"] == "registry":
        prog = programs.from_registry(registry.by_pid(case["pid"]))
        if not prog.numeric:
            return {"status": "skipped", "reason": "metadata_skips_numeric_validation"}
        res = programs.differential(prog, [("benign", "benign"), ("uniform", "benign"), ("integral", "benign")], seed=seed)
        return recs.record_from_differential(prog, res)
    if case["src"] == "cf":
        spec = _family()[case["name"]]
        out = _run_steer(spec["fn"], spec["sig"], spec["steer"], case["dp"], case["key"], rec, f"cf/{case['name']}")
        if out.startswith("raised"):
            rec["obs"]["supported_looking_construct_rejected_at_export"] = 1
            rec["status"] = "inconclusive"
            rec["reason"] = "export_raises"
            rec["detail"] = out
            return rec
        rec["status"] = "violated" if rec["violations"] else "held"
        rec["sample"] = {"program": case["name"], "steering_inputs": len(spec["steer"]), "example": [np.asarray(a).tolist() for a in spec["steer"][0]][:2]}
        return rec
    fn, sig, feeds = _unsupported(case["name"])
    out = _run_steer(fn, sig, feeds, False, case["key"], rec, f"unsupported/{case['name']}")
    rec["evals"] = max(rec["evals"], 1)
    if out.startswith("raised"):
        rec["nontrivial"].append(case["key"] + "|rejected")
        rec["obs"]["unsupported_variant_rejected_at_export"] = 1
    else:
        rec["obs"]["unsupported_variant_exported(and compared)"] = 1
    rec["status"] = "violated" if rec["violations"] else "held"
    rec["sample"] = {"construct": case["name"], "outcome": out}
    return rec
