"""C04 — symbolic-shape exports are correct for every binding of the symbols."""

from __future__ import annotations

from typing import Any

import numpy as np

from vlib import ortrun, programs, recs, registry

ONE = [1, 2, 3, 5, 8, 13]
TWO = [(1, 1), (1, 4), (4, 1), (2, 3), (3, 2), (5, 5), (7, 11)]
THREE = [(1, 1, 1), (2, 2, 2), (1, 2, 3), (3, 2, 1), (2, 2, 5), (2, 5, 2), (5, 2, 2), (3, 4, 5), (7, 3, 2)]
ONE_T = ONE + [17, 19, 23, 29, 31, 64]
TWO_T = TWO + [(13, 2), (2, 13), (17, 17), (31, 1), (1, 31), (64, 3), (8, 8)]


def lattice(symbols: list[str], tier: str) -> list[dict[str, int]]:
    n = len(symbols)
    if n == 1:
        pts = [(v,) for v in (ONE_T if tier == "thorough" else ONE)]
    elif n == 2:
        pts = TWO_T if tier == "thorough" else TWO
    else:
        pts = [tuple((p + (2,) * n)[:n]) for p in THREE]
    return [dict(zip(symbols, p)) for p in pts]


def tag(b: dict[str, int]) -> str:
    return ",".join(f"{k}={v}" for k, v in b.items())


# ----------------------------------------------------------------------------
# P2 shape-arithmetic family (hand-written, symbolic specs)
# ----------------------------------------------------------------------------


def _shape_programs() -> dict[str, dict[str, Any]]:
    import jax
    import jax.numpy as jnp
    from jax import lax

    f32 = np.float32
    P: dict[str, dict[str, Any]] = {}
    from vlib import fnmods

    c04_scalar = lambda x: fnmods.c04_scalar_summary(x)  # noqa: E731  (late-bound: the decorated function is patched while tracing)

    def add(name, fn, shapes, **kw):
        P[name] = {"fn": fn, "shapes": shapes, **kw}

    add("flatten", lambda x: x.reshape(x.shape[0], -1) * 2, [("B", 3, 4)])
    add("flatten_all", lambda x: x.reshape(-1), [("B", 3)])
    add("merge_split", lambda x: x.reshape(x.shape[0] * 2, 3).reshape(x.shape[0], 6) + 1, [("B", 6)])
    add("swap_then_reshape", lambda x: jnp.transpose(x, (1, 0, 2)).reshape(4, -1), [("B", 4, 2)])
    add("outer_product", lambda a, b: a[:, None] * b[None, :], [("B",), ("N",)])
    add("bcast_size1_left", lambda a, b: a + b, [("B", 1, 3), (1, "N", 3)])
    add("concat_B_N", lambda a, b: jnp.concatenate([a, b], axis=0) * 2, [("B", 3), ("N", 3)])
    add("dim_as_value", lambda x: x * x.shape[0], [("B", 3)])
    add("dim_product_value", lambda x: x.sum(axis=(0, 1)) / (x.shape[0] * x.shape[1]), [("B", "N", 2)])
    add("dim_sum_value", lambda a, b: jnp.zeros((3,)) + (a.shape[0] + b.shape[0]), [("B", 3), ("N", 3)])
    add("dim_floordiv", lambda x: x[: x.shape[0] // 2 + 1] * 1.0, [("B", 3)])
    add("dim_mod_value", lambda x: x.sum(0) + (x.shape[0] % 3), [("B", 3)])
    add("arange_dim", lambda x: x + jnp.arange(x.shape[0], dtype=jnp.float32)[:, None], [("B", 3)])
    add("tile_dim", lambda x: jnp.tile(x, (2, 1)), [("B", 3)])
    add("pad_rows", lambda x: jnp.pad(x, ((1, 2), (0, 1))), [("B", 3)])
    add("broadcast_to_dim", lambda x: jnp.broadcast_to(x[:, None, :], (x.shape[0], 4, 3)), [("B", 3)])
    add("matmul_contract_symbol", lambda a, b: a @ b, [(3, "B"), ("B", 2)])
    add("matmul_batch_symbol", lambda a, b: a @ b, [("B", 3, 4), ("B", 4, 2)])
    add("eye_dim", lambda x: x @ jnp.eye(3, dtype=x.dtype) + jnp.eye(x.shape[0], 3, dtype=x.dtype), [("B", 3)])
    add("softmax_over_symbol", lambda x: jax.nn.softmax(x, axis=0), [("B", 3)])
    add("mean_over_symbol", lambda x: (x - x.mean(axis=0, keepdims=True)) / (x.std(axis=0) + 1.0), [("B", 3)])
    add("cumsum_over_symbol", lambda x: jnp.cumsum(x, axis=0), [("B", 3)])
    add("scan_over_symbol", lambda x: lax.scan(lambda c, r: (c + r, c * r), jnp.zeros((3,), x.dtype), x)[1], [("B", 3)])
    add("scan_carry_symbol", lambda x: lax.scan(lambda c, r: (c + r.sum(), c), jnp.zeros((), x.dtype), x)[0] + x, [("B", 3)])
    add("where_mask_rows", lambda x: jnp.where(jnp.arange(x.shape[0])[:, None] % 2 == 0, x, -x), [("B", 3)])
    add("two_symbols_reshape", lambda x: x.reshape(x.shape[0] * x.shape[1], 2).sum(0), [("B", "N", 2)])
    add("expand_stack", lambda a: jnp.stack([a, a * 2], axis=1), [("B", 3)])
    add("split_static_axis", lambda x: jnp.split(x, 3, axis=1)[1], [("B", 6)])
    add("argmax_over_symbol", lambda x: jnp.argmax(x, axis=0), [("B", 3)])
    add("take_last_row", lambda x: x[-1] + x[0], [("B", 3)])
    add("squeeze_unit_tail", lambda x: jnp.squeeze(x[:, :1], axis=1), [("B", 3)])
    add("einsum_symbol", lambda a, b: jnp.einsum("bij,bjk->bik", a, b), [("B", 2, 3), ("B", 3, 2)])
    add("conv_symbolic_batch", lambda x: lax.conv_general_dilated(x, jnp.ones((2, 2, 3, 4), x.dtype), (1, 1), "SAME", dimension_numbers=("NHWC", "HWIO", "NHWC")), [("B", 4, 4, 3)])
    add("nchw_symbolic_batch", lambda x: jnp.mean(x, axis=(1, 2), keepdims=True) + x, [("B", 4, 5, 3)], kwargs={"inputs_as_nchw": [0], "outputs_as_nchw": [0]})
    add("nchw_symbolic_hw_tokens", lambda x: lax.reshape(x, (x.shape[0], x.shape[1] * x.shape[2], 3)) * 2.0, [("B", "H", "W", 3)], kwargs={"inputs_as_nchw": [0]})
    add("nchw_symbolic_hw_pool", lambda x: x - jnp.sum(x, axis=(1, 2), keepdims=True) / (x.shape[1] * x.shape[2]), [("B", "H", "W", 3)], kwargs={"inputs_as_nchw": [0], "outputs_as_nchw": [0]})
    add("nchw_symbolic_hw_dims_as_values", lambda x: x * 0.0 + x.shape[1] * 100.0 + x.shape[2], [(2, "H", "W", 3)], kwargs={"inputs_as_nchw": [0]})
    add("symbolic_hw_tokens_plain", lambda x: lax.reshape(x, (x.shape[0], x.shape[1] * x.shape[2], 3)) * 2.0, [("B", "H", "W", 3)])
    add("floordiv_and_mod_same_operands", lambda x: jnp.zeros((2,), x.dtype) + jnp.stack([jnp.float32(x.shape[0] // 3), jnp.float32(x.shape[0] % 3)]) + x.sum() * 0.0, [("B", 3)])
    add("floordiv_mod_in_shapes", lambda x: jnp.concatenate([x[: x.shape[0] // 2], x[: x.shape[0] % 2 + 1]], axis=0) * 2.0, [("B", 3)])
    add("max_and_min_of_two_dims", lambda a, b: (a.sum() + b.sum()) * 0.0 + jnp.stack([jnp.float32(max(a.shape[0], b.shape[0])), jnp.float32(min(a.shape[0], b.shape[0]))]) if False else (a.sum() + b.sum()) * 0.0 + jnp.stack([jnp.float32(jnp.maximum(a.shape[0], b.shape[0])), jnp.float32(jnp.minimum(a.shape[0], b.shape[0]))]), [("B", 3), ("N", 3)])
    add("dim_div_mod_mul_chain", lambda x: x.reshape(-1)[: (x.shape[0] * 3) // 2] * 1.0 + jnp.float32((x.shape[0] * 3) % 2), [("B", 3)])
    # symbolic extents x nested scopes: intermediates carrying the symbol live only inside a body,
    # the construct's results do not carry it, and the enclosing graph asks for the extent afterwards
    B0 = lambda x: x.shape[0]  # noqa: E731
    add("cond_scalar_then_broadcast", lambda x: jnp.broadcast_to(lax.cond(jnp.sum(x) > 0, lambda v: jnp.sum(jnp.tanh(v) * 2.0), lambda v: jnp.sum(v - 1.0), x), (B0(x), 4)) + x[:, :1], [("B", 3)])
    add("scan_scalar_then_broadcast", lambda x: jnp.broadcast_to(lax.scan(lambda c, r: (c + jnp.sum(jnp.tanh(r)), jnp.sum(r)), jnp.zeros((), x.dtype), x.T)[0], (B0(x), 2)) * x[:, :2], [("B", 3)])
    add("fori_scalar_then_reshape", lambda x: x.reshape(B0(x) * 3) * lax.fori_loop(0, 2, lambda i, s: (s[0] + jnp.sum(jnp.exp(s[1] * 0.1)) * 0.01, s[1]), (jnp.zeros((), x.dtype), x))[0], [("B", 3)])
    add("while_scalar_then_tile", lambda x: jnp.tile(x, (1, 2)) + lax.while_loop(lambda s: s[0] < 2, lambda s: (s[0] + 1, s[1] + jnp.sum(jnp.abs(s[2])) * 0.1, s[2]), (0, jnp.zeros((), x.dtype), x))[1] + jnp.zeros((B0(x), 1), x.dtype), [("B", 3)])
    add("cond_scalar_then_dim_as_value", lambda x: lax.cond(jnp.sum(x) > 0, lambda v: jnp.max(v * 2.0), lambda v: jnp.min(v), x) * B0(x) + jnp.zeros((B0(x),), x.dtype), [("B", 3)])
    add("cond_symbolic_result_then_broadcast", lambda x: jnp.broadcast_to(lax.cond(jnp.sum(x) > 0, lambda v: jnp.tanh(v), lambda v: v * 2.0, x)[:, None, :], (B0(x), 2, 3)), [("B", 3)])
    add("two_symbols_cond_then_outer", lambda a, b: lax.cond(jnp.sum(a) > 0, lambda u, v: jnp.sum(u) + jnp.sum(v), lambda u, v: jnp.sum(u) - jnp.sum(v), a, b) + jnp.zeros((a.shape[0], b.shape[0]), a.dtype) + a[:, :1], [("B", 3), ("N", 3)])
    add("nested_cond_in_scan_then_broadcast", lambda x: jnp.broadcast_to(lax.scan(lambda c, r: (lax.cond(jnp.sum(r) > 0, lambda u: u + jnp.sum(r), lambda u: u - 1.0, c), jnp.sum(r)), jnp.zeros((), x.dtype), x.T)[0], (B0(x),)) + x[:, 0], [("B", 3)])
    add("function_scalar_then_broadcast", lambda x: jnp.broadcast_to(c04_scalar(x), (B0(x), 3)) + x, [("B", 3)])
    # polynomial extents: powers and coefficients that print alike ((B, 2) is B**2 as a factor and 2*B as a term)
    dimv = lambda x, e: jnp.zeros((2,), x.dtype) + x.sum() * 0.0 + e  # noqa: E731
    add("dim_poly_square_plus_double", lambda x: dimv(x, x.shape[0] * x.shape[0] + 2 * x.shape[0]), [("B", 3)])
    add("dim_poly_double_then_square", lambda x: x.reshape((x.shape[0] * 3,)) * (2 * x.shape[0]) + x.shape[0] * x.shape[0], [("B", 3)])
    add("dim_poly_cube_plus_triple", lambda x: dimv(x, x.shape[0] ** 3 + 3 * x.shape[0] + 3), [("B", 3)])
    add("dim_poly_two_symbols", lambda a, b: dimv(a, a.shape[0] * b.shape[0] + 2 * a.shape[0] + b.shape[0] * b.shape[0] + 2 * b.shape[0]) + b.sum() * 0.0, [("B", 3), ("N", 3)])
    add("dim_poly_in_shape_and_value", lambda x: jnp.ones((x.shape[0] * x.shape[0] + 2 * x.shape[0],), x.dtype).sum() + dimv(x, 2 * x.shape[0]), [("B", 3)])
    add("dim_poly_square_of_sum", lambda a, b: dimv(a, (a.shape[0] + b.shape[0]) ** 2 - 2 * (a.shape[0] + b.shape[0])) + b.sum() * 0.0, [("B", 3), ("N", 3)])
    add("dim_poly_floordiv_of_square", lambda x: dimv(x, (x.shape[0] * x.shape[0]) // 2 + (2 * x.shape[0]) // 2 + (x.shape[0] * x.shape[0]) % 3), [("B", 3)])
    # a statically sized piece (slice, constant) broadcast against a symbolic extent
    add("broadcast_sliced_vector_to_symbolic_rows", lambda x, w: x + jnp.broadcast_to(w[0:3], (x.shape[0], 3)), [("B", 3), (5,)])
    add("mul_broadcast_sliced_vector_like_x", lambda x, v: x * jnp.broadcast_to(v[1:4], x.shape), [("B", 3), (6,)])
    add("broadcast_sliced_matrix_rows", lambda x, m: x[:, None, :] + jnp.broadcast_to(m[1:3], (x.shape[0], 2, 3)), [("B", 3), (4, 3)])
    add("sliced_vector_outer_symbolic", lambda x, w: x[:, :1] * w[2:5][None, :] + x, [("B", 3), (7,)])
    add("concat_sliced_const_rows_with_symbolic", lambda x, m: jnp.concatenate([x, m[0:2]], axis=0) * 2.0, [("B", 3), (4, 3)])
    add("dynamic_slice_then_broadcast", lambda x, w: x - jnp.broadcast_to(lax.dynamic_slice(w, (1,), (3,)), (x.shape[0], 3)), [("B", 3), (5,)])
    add("three_symbols", lambda a, b, c: a[:, None, None] * b[None, :, None] + c[None, None, :], [("B",), ("N",), ("M",)])
    add("reshape_pair_B4_4N", lambda a, b: (a.reshape(4, -1).sum(1) + b.reshape(-1, 4).sum(0)), [("B", 4), (4, "N")])
    return P


def enumerate_cases(tier: str, seed: int) -> list[dict[str, Any]]:
    cases = []
    per_family: dict[str, int] = {}
    for tp in registry.corpus():
        syms = registry.symbols_of(tp)
        if not syms or registry.is_heavy(tp):
            continue
        if tier == "quick":
            if tp["_dp"]:
                continue
            n = per_family.get(tp["_family"], 0)
            per_family[tp["_family"]] = n + 1
            if n >= 2:
                continue
        cases.append({"key": f"reg:{tp['_pid']}", "src": "registry", "pid": tp["_pid"], "cost": float(len(syms))})
    for name in _shape_programs():
        for dp in (False, True) if tier == "thorough" else (False,):
            cases.append({"key": f"shape:{name}#{'f64' if dp else 'f32'}", "src": "shape", "name": name, "dp": dp, "cost": 1.0})
    fn_cases = [{"key": "shape:function_boundary#f32", "src": "shape", "name": "__function_boundary__", "dp": False, "cost": 1.0}]
    return recs.only_filter(cases + fn_cases)


def _build_shape_prog(case: dict[str, Any]) -> programs.Program:
    dp = case["dp"]
    dt = np.dtype(np.float64 if dp else np.float32)
    if case["name"] == "__function_boundary__":
        from vlib import fnmods

        spec = {"fn": fnmods.c04_outer, "shapes": [("B", 3), ("N", 3)]}
    else:
        spec = _shape_programs()[case["name"]]
    shapes = spec["shapes"]
    syms: list[str] = []
    for s in shapes:
        for d in s:
            if isinstance(d, str) and d not in syms:
                syms.append(d)

    def specs():
        return [tuple(s) for s in shapes]  # tuple specs take the float width of the precision flag

    return programs.Program(
        pid=case["key"],
        family=f"shape/{case['name']}",
        make_fn=lambda: spec["fn"],
        specs=specs,
        signature=lambda b: [(tuple(int(b[d]) if isinstance(d, str) else int(d) for d in s), dt) for s in shapes],
        dp=dp,
        kwargs=dict(spec.get("kwargs", {})),
        symbols=syms,
        source="shape",
    )


def run_case(case: dict[str, Any], tier: str, seed: int) -> dict[str, Any]:
    if case["src"] == "registry":
        prog = programs.from_registry(registry.by_pid(case["pid"]))
    else:
        prog = _build_shape_prog(case)
    if not prog.numeric:
        return {"status": "skipped", "reason": "metadata_skips_numeric_validation"}
    try:
        model = prog.export()
    except Exception as exc:  # noqa: BLE001
        return {"status": "inconclusive", "reason": "export_raises(outside the quantifier)", "detail": f"{type(exc).__name__}: {str(exc)[:200]}"}
    try:
        sess = ortrun.session(model)
    except ortrun.OrtEnvLimit as exc:
        return {"status": "inconclusive", "reason": "ort_env_limit", "detail": str(exc)[:200]}
    except ortrun.OrtLoadError as exc:
        # a symbolic export the runtime refuses accepts *no* binding of its symbols
        return {"status": "violated", "evals": 1, "nontrivial": [prog.pid + "|load"], "obs": {"symbolic_exports_refused_by_runtime": 1},
                "violations": [{"family": prog.family, "program": prog.pid, "kind": "symbolic_export_does_not_load", "cls": "all_bindings", "text": f"{prog.pid}: exported with symbolic dims {prog.symbols}, ORT refuses the model: {str(exc)[:250]}"}]}
    rec: dict[str, Any] = {"evals": 0, "nontrivial": [], "violations": [], "obs": {}}
    for b in lattice(prog.symbols, tier):
        res = programs.differential(prog, [("benign", "benign")], seed=seed, binding=b, model=model, sess=sess)
        r2 = recs.record_from_differential(prog, res, tag=tag(b) + ":")
        rec["evals"] += r2["evals"]
        rec["nontrivial"] += r2["nontrivial"]
        for v in r2["violations"]:
            v["cls"] = tag(b)
            rec["violations"].append(v)
        for k, v in r2["obs"].items():
            rec["obs"][k] = rec["obs"].get(k, 0) + v
        if "sample" in r2 and "sample" not in rec:
            rec["sample"] = {**r2["sample"], "binding": b}
    rec["status"] = "violated" if rec["violations"] else "held"
    return rec
