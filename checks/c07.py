"""C07 — ONNX function boundaries are transparent; bodies shared only when equal."""

from __future__ import annotations

from typing import Any

import numpy as np

from vlib import modelwalk, oracle, ortrun, programs, recs, registry
from vlib.substrate import stable_hash


def _names() -> list[str]:
    from vlib import fnmods7

    return list(fnmods7.programs(True))


def enumerate_cases(tier: str, seed: int) -> list[dict[str, Any]]:
    cases = [{"key": f"fn:{n}", "src": "fn", "name": n, "cost": 1.0} for n in _names()]
    per: dict[str, int] = {}
    for tp in registry.corpus():
        if not tp["_family"].startswith("examples.onnx_functions") or registry.is_heavy(tp):
            continue
        if tier == "quick" and (tp["_dp"] or per.get(tp["_family"], 0) >= 2):
            continue
        per[tp["_family"]] = per.get(tp["_family"], 0) + 1
        cases.append({"key": f"reg:{tp['_pid']}", "src": "registry", "pid": tp["_pid"], "cost": 2.0})
    return recs.only_filter(cases)


def _fn_stats(model) -> dict[str, int]:
    defs = {(f.domain, f.name) for f in model.functions}
    calls = sum(1 for _, n in modelwalk.iter_all_nodes(model) if (n.domain, n.op_type) in defs)
    return {"definitions": len(defs), "call_nodes": calls}


def run_case(case: dict[str, Any], tier: str, seed: int) -> dict[str, Any]:
    rec: dict[str, Any] = {"evals": 0, "nontrivial": [], "violations": [], "obs": {}}
    if case["src"] == "registry":
        prog = programs.from_registry(registry.by_pid(case["pid"]))
        if not prog.numeric:
            return {"status": "skipped", "reason": "metadata_skips_numeric_validation"}
        res = programs.differential(prog, [("benign", "benign"), ("uniform", "benign")], seed=seed)
        r2 = recs.record_from_differential(prog, res)
        if res.get("model") is not None:
            st = _fn_stats(res["model"])
            r2.setdefault("obs", {})["function_definitions"] = st["definitions"]
            r2["obs"]["function_call_nodes"] = st["call_nodes"]
            for p in modelwalk.structural_problems(res["model"]):
                if p["rule"] in ("call_arity", "function_missing", "function_closed"):
                    r2.setdefault("violations", []).append({"family": prog.family, "program": prog.pid, "kind": "structure:" + p["rule"], "cls": "default", "text": f"{prog.pid}: {p['where']}: {p['what']}"})
                    r2["status"] = "violated"
        return r2
    from vlib import fnmods7

    name = case["name"]
    D = fnmods7.programs(True)[name]
    P = fnmods7.programs(False)[name]
    dts = D.get("dtypes") or [np.float32] * len(D["shapes"])
    kw = dict(D.get("kw", {}))
    dp = bool(kw.get("enable_double_precision"))
    syms = sorted({d for s in D["shapes"] for d in s if isinstance(d, str)})

    def mk(spec):
        return programs.Program(
            pid=f"fn/{name}",
            family=f"fn/{name}",
            make_fn=lambda: spec["fn"],
            specs=lambda: [__import__("jax").ShapeDtypeStruct(tuple(s), (np.float64 if dp and dt == np.float32 else dt)) for s, dt in zip(spec["shapes"], dts)],
            signature=lambda b: [(tuple(int(b.get(d, 3)) if isinstance(d, str) else int(d) for d in s), np.dtype(np.float64 if dp and dt == np.float32 else dt)) for s, dt in zip(spec["shapes"], dts)],
            dp=dp,
            kwargs={k: v for k, v in kw.items() if k != "enable_double_precision"},
            symbols=syms,
            source="fn",
        )

    prog_d, prog_p = mk(D), mk(P)
    # references come from the undecorated twin (never exported before the decorated export)
    try:
        model_d = prog_d.export()
    except Exception as exc:  # noqa: BLE001
        return {"status": "inconclusive", "reason": "export_raises(decorated)", "detail": f"{type(exc).__name__}: {str(exc)[:200]}"}
    try:
        model_p = prog_p.export()
    except Exception as exc:  # noqa: BLE001
        return {"status": "inconclusive", "reason": "export_raises(plain twin)", "detail": f"{type(exc).__name__}: {str(exc)[:200]}"}
    st = _fn_stats(model_d)
    rec["obs"]["function_definitions"] = st["definitions"]
    rec["obs"]["function_call_nodes"] = st["call_nodes"]
    if _fn_stats(model_p)["definitions"]:
        return {"status": "inconclusive", "reason": "plain_twin_contains_functions"}
    if st["definitions"] == 0:
        rec["obs"]["decorated_export_has_no_function(boundary dropped)"] = 1
    for p in modelwalk.structural_problems(model_d):
        rec["violations"].append({"family": f"fn/{name}", "kind": "structure:" + p["rule"], "cls": "decorated", "text": f"{name}: {p['where']}: {p['what']}"})
    draws = [("benign", "benign"), ("uniform", "benign"), ("integral", "benign")]
    res_d = programs.differential(prog_p, draws, seed=seed, model=model_d)  # JAX reference = plain twin
    r_d = recs.record_from_differential(prog_p, res_d, tag="decorated_vs_jax:")
    rec["evals"] += r_d.get("evals", 0)
    for v in r_d.get("violations", []):
        v["family"] = f"fn/{name}"
        v["kind"] = "decorated_differs_from_jax:" + v["kind"]
        rec["violations"].append(v)
    # decorated export vs undecorated export on the same feeds
    try:
        sd, sp = ortrun.session(model_d), ortrun.session(model_p)
        rng = np.random.default_rng([seed, stable_hash(case["key"]) % 2**31])
        from vlib import inputs as vin

        for fc in ("benign", "large"):
            xs = vin.draw(prog_d.signature({s: 3 for s in syms}), fc, "benign", rng)
            xs = programs.ort_feeds_for(prog_d, xs)
            a = ortrun.run(sd, ortrun.build_feed(sd, xs))
            b = ortrun.run(sp, ortrun.build_feed(sp, xs))
            c = oracle.compare(b, a)
            rec["evals"] += 1
            if not c.ok and not c.unstable_only:
                rec["violations"].append({"family": f"fn/{name}", "kind": "decorated_differs_from_undecorated:" + (c.kind or "value"), "cls": fc, "text": f"{name} [{fc}]: {c.text}"})
    except (ortrun.OrtEnvLimit, ortrun.OrtLoadError, ortrun.OrtRunError) as exc:
        rec["obs"]["ort_problem"] = 1
        rec["violations"].append({"family": f"fn/{name}", "kind": "invalid_model", "cls": "decorated", "text": f"{name}: {str(exc)[:200]}"})
    if not rec["violations"] and rec["evals"]:
        rec["nontrivial"].append(f"{name}|defs={st['definitions']},calls={st['call_nodes']}")
        if st["call_nodes"] > st["definitions"] >= 1:
            rec["obs"]["programs_with_a_shared_body"] = 1
        if st["definitions"] >= 2:
            rec["obs"]["programs_with_distinct_bodies"] = 1
    rec["status"] = "violated" if rec["violations"] else "held"
    rec["sample"] = {"program": name, **st}
    return rec
