"""C15 — all return and file modes deliver the same model."""

from __future__ import annotations

import os
import pathlib
import shutil
import tempfile
from typing import Any

import numpy as np
import onnx

from vlib import modelwalk, ortrun, recs
from vlib.substrate import stable_hash

SIZES = [8, 511, 512, 513, 600]


def _weights(n: int, salt: int, dtype=np.float32) -> np.ndarray:
    rng = np.random.default_rng([n, salt])
    return rng.standard_normal((n, n)).astype(dtype) / np.sqrt(n)


def _programs() -> dict[str, dict[str, Any]]:
    import jax
    import jax.numpy as jnp
    from jax import lax

    P: dict[str, dict[str, Any]] = {}
    for n in SIZES:
        for salt in (0, 1):
            W = _weights(n, salt)
            P[f"matmul_{n}_s{salt}"] = {"fn": (lambda W: lambda x: jnp.tanh(x @ W))(W), "in": (2, n), "dp": False}
    W1, W2, b = _weights(600, 2), _weights(520, 3), np.linspace(-1, 1, 600).astype(np.float32)
    P["several_large"] = {"fn": lambda x: (jnp.tanh(x @ W1 + b)[:, :520] @ W2), "in": (2, 600), "dp": False}
    Wl = _weights(520, 4)
    P["large_in_loop_body"] = {"fn": lambda x: lax.fori_loop(0, 3, lambda i, v: jnp.tanh(v @ Wl), x), "in": (2, 520), "dp": False}
    Wc = _weights(520, 5)
    P["large_in_cond_branch"] = {"fn": lambda x: lax.cond(jnp.sum(x) > 0, lambda v: v @ Wc, lambda v: v * 2.0, x), "in": (2, 520), "dp": False}
    W64 = _weights(400, 6, np.float64)  # 400*400*8 = 1.28 MB
    P["float64_large"] = {"fn": lambda x: jnp.tanh(x @ W64), "in": (2, 400), "dp": True}
    Wsm = _weights(300, 7, np.float64)  # 720 kB: below the threshold
    P["float64_small"] = {"fn": lambda x: jnp.tanh(x @ Wsm), "in": (2, 300), "dp": True}
    P["large_in_function_body"] = {"fn": "__fnmods_c15__", "in": (2, 520), "dp": False}
    Wd = _weights(600, 8)
    P["cond_operand_dead_in_branches"] = {"fn": lambda x: lax.cond(jnp.sum(x) > 0, lambda a, b: a * 2.0, lambda a, b: a - 1.0, x, jnp.dot(x, Wd)), "in": (2, 600), "dp": False}
    P["cond_operand_read_only_in_branches"] = {"fn": lambda x: lax.cond(jnp.sum(x) > 0, lambda a, w: a @ w, lambda a, w: a * 2.0 + w[0], x, jnp.asarray(Wd)), "in": (2, 600), "dp": False}
    P["scan_unused_xs_and_large_const"] = {"fn": lambda x: lax.scan(lambda c, r: (jnp.tanh(c @ Wd), c.sum()), x, jnp.zeros((3, 2)))[0], "in": (2, 600), "dp": False}
    P["no_parameters"] = {"fn": lambda x: jnp.tanh(x) * 2, "in": (2, 8), "dp": False}
    return P


SEQUENCES = [
    ("standard_then_web", [("matmul_600_s0", "standard"), ("matmul_600_s0", "web")]),
    ("web_then_standard", [("matmul_600_s0", "web"), ("matmul_600_s0", "standard")]),
    ("large_then_small", [("matmul_600_s0", "standard"), ("matmul_8_s0", "standard")]),
    ("small_then_large", [("matmul_8_s0", "standard"), ("matmul_600_s0", "standard")]),
    ("large_then_other_large", [("matmul_600_s0", "standard"), ("matmul_600_s1", "standard")]),
    ("large_then_other_large_smaller", [("matmul_600_s0", "standard"), ("matmul_513_s1", "standard")]),
    ("at_threshold_then_below", [("matmul_512_s0", "standard"), ("matmul_511_s1", "standard")]),
    ("three_in_a_row", [("several_large", "standard"), ("matmul_513_s0", "web"), ("large_in_loop_body", "standard")]),
    ("web_web_different", [("matmul_600_s0", "web"), ("matmul_600_s1", "web")]),
    ("float64_after_float32", [("matmul_600_s0", "standard"), ("float64_large", "standard")]),
]


def enumerate_cases(tier: str, seed: int) -> list[dict[str, Any]]:
    cases = []
    for name in _programs():
        cases.append({"key": f"modes:{name}", "src": "modes", "name": name, "cost": 2.0})
    for name, seq in SEQUENCES:
        cases.append({"key": f"seq:{name}", "src": "seq", "name": name, "cost": 3.0})
    for name in ("missing_directory", "pathlike_path", "ir_mutation_after_return", "relative_path", "spelling_Web", "spelling_WEB_spaces", "spelling_Standard", "spelling_return_mode_File", "spelling_web_after_standard"):
        cases.append({"key": f"misc:{name}", "src": "misc", "name": name, "cost": 1.0})
    if tier == "thorough":
        from vlib import registry

        n = 0
        for tp in registry.corpus():
            if registry.is_heavy(tp):
                continue
            if (stable_hash(tp["_pid"]) + seed) % 6 == 0:
                cases.append({"key": f"reg:{tp['_pid']}", "src": "registry", "pid": tp["_pid"], "cost": 1.0})
                n += 1
    return recs.only_filter(cases)


def _fn_of(spec: dict[str, Any]):
    if spec["fn"] == "__fnmods_c15__":
        from vlib import fnmods

        return fnmods.c15_outer
    return spec["fn"]


def _spec_inputs(spec: dict[str, Any]):
    import jax

    return [jax.ShapeDtypeStruct(spec["in"], np.float64 if spec["dp"] else np.float32)]


def _normalise(m: onnx.ModelProto) -> bytes:
    """Inline external data and clear location bookkeeping."""
    m2 = onnx.ModelProto()
    m2.CopyFrom(m)
    for _, t in modelwalk.iter_all_tensors(m2):
        if t.data_location == onnx.TensorProto.EXTERNAL or len(t.external_data):
            t.ClearField("external_data")
            t.data_location = onnx.TensorProto.DEFAULT
        if t.HasField("data_location"):
            t.ClearField("data_location")
    return m2.SerializeToString(deterministic=True)


def _load(path: str) -> onnx.ModelProto:
    return onnx.load(path, load_external_data=True)


def _export_all_modes(fn, inputs, dp, d, kw=None):
    import onnx_ir as ir
    from jax2onnx.user_interface import to_onnx

    kw = dict(kw or {})
    out: dict[str, Any] = {}
    out["proto"] = to_onnx(fn, inputs, enable_double_precision=dp, **kw)
    out["ir"] = ir.to_proto(to_onnx(fn, inputs, enable_double_precision=dp, return_mode="ir", **kw))
    ps = os.path.join(d, "std", "m.onnx")
    pw = os.path.join(d, "web", "m.onnx")
    r1 = to_onnx(fn, inputs, enable_double_precision=dp, return_mode="file", output_path=ps, **kw)
    r2 = to_onnx(fn, inputs, enable_double_precision=dp, return_mode="file", output_path=pw, export_mode="web", **kw)
    out["paths"] = (r1, r2)
    for key, path in (("file_standard", ps), ("file_web", pw)):
        try:
            out[key] = _load(path)
        except Exception as exc:  # noqa: BLE001
            out[key] = None
            out.setdefault("reload_errors", {})[key] = f"{type(exc).__name__}: {str(exc)[:200]}"
    out["listing_std"] = sorted(os.listdir(os.path.dirname(ps)))
    out["listing_web"] = sorted(os.listdir(os.path.dirname(pw)))
    out["web_raw"] = onnx.load(pw, load_external_data=False)
    out["std_raw"] = onnx.load(ps, load_external_data=False)
    return out


def _compare_modes(out, fam, pid, rec, feed) -> None:
    ref = _normalise(out["proto"])
    for mode, err in (out.get("reload_errors") or {}).items():
        rec["violations"].append({"family": fam, "program": pid, "kind": "reload_fails", "cls": mode, "text": f"{pid}: the {mode} export cannot be reloaded (dir: {out['listing_std'] if mode == 'file_standard' else out['listing_web']}): {err}"})
    for mode in ("ir", "file_standard", "file_web"):
        if out[mode] is None:
            continue
        got = _normalise(out[mode])
        rec["evals"] += 1
        if got != ref:
            # locate
            a, b = out["proto"], out[mode]
            what = "graph differs"
            ia = {t.name: t for t in a.graph.initializer}
            ib = {t.name: t for t in b.graph.initializer}
            if set(ia) != set(ib):
                what = f"initializer sets differ: {sorted(set(ia) ^ set(ib))[:4]}"
            else:
                for k in ia:
                    xa, xb = onnx.numpy_helper.to_array(ia[k]), onnx.numpy_helper.to_array(ib[k])
                    if xa.dtype != xb.dtype or xa.shape != xb.shape or xa.tobytes() != xb.tobytes():
                        what = f"initializer {k!r} bytes differ"
                        break
            rec["violations"].append({"family": fam, "program": pid, "kind": "mode_mismatch", "cls": mode, "text": f"{pid}: return mode {mode} is not the same model as 'proto': {what}"})
    # web: single self-contained file
    if out["listing_web"] != ["m.onnx"]:
        rec["violations"].append({"family": fam, "program": pid, "kind": "web_not_single_file", "cls": "file_web", "text": f"{pid}: web export directory contains {out['listing_web']}"})
    ext = [w for w, t in modelwalk.iter_all_tensors(out["web_raw"]) if len(t.external_data) or t.data_location == onnx.TensorProto.EXTERNAL]
    if ext:
        rec["violations"].append({"family": fam, "program": pid, "kind": "web_not_single_file", "cls": "file_web", "text": f"{pid}: web export references external data: {ext[:3]}"})
    n_ext = sum(1 for _, t in modelwalk.iter_all_tensors(out["std_raw"]) if len(t.external_data))
    rec["obs"]["standard_exports_with_external_data"] = rec["obs"].get("standard_exports_with_external_data", 0) + (1 if n_ext else 0)
    rec["obs"]["standard_exports_fully_inline"] = rec["obs"].get("standard_exports_fully_inline", 0) + (0 if n_ext else 1)
    if n_ext and "m.onnx.data" not in out["listing_std"]:
        rec["violations"].append({"family": fam, "program": pid, "kind": "sidecar_missing", "cls": "file_standard", "text": f"{pid}: external data referenced but directory holds {out['listing_std']}"})
    # same outputs
    try:
        base = ortrun.run_model(out["proto"], feed)
        for mode in ("ir", "file_standard", "file_web"):
            if out[mode] is None:
                continue
            got = ortrun.run_model(out[mode], feed)
            if len(got) != len(base) or any(x.tobytes() != y.tobytes() for x, y in zip(base, got)):
                rec["violations"].append({"family": fam, "program": pid, "kind": "mode_outputs_differ", "cls": mode, "text": f"{pid}: ORT outputs of mode {mode} differ from 'proto'"})
        rec["obs"]["ort_output_comparisons"] = rec["obs"].get("ort_output_comparisons", 0) + 3
    except (ortrun.OrtEnvLimit, ortrun.OrtLoadError, ortrun.OrtRunError):
        rec["obs"]["ort_unavailable_for_model"] = 1


def run_case(case: dict[str, Any], tier: str, seed: int) -> dict[str, Any]:
    from jax2onnx.user_interface import to_onnx

    rec: dict[str, Any] = {"evals": 0, "nontrivial": [], "violations": [], "obs": {}}
    d = tempfile.mkdtemp(prefix="c15_")
    cwd = os.getcwd()
    try:
        P = _programs()
        if case["src"] == "modes":
            spec = P[case["name"]]
            rng = np.random.default_rng([seed, 15])
            feed = [rng.standard_normal(spec["in"]).astype(np.float64 if spec["dp"] else np.float32)]
            out = _export_all_modes(_fn_of(spec), _spec_inputs(spec), spec["dp"], d)
            _compare_modes(out, f"modes/{case['name']}", case["key"], rec, feed)
            big = sum(1 for t in out["proto"].graph.initializer if len(t.raw_data) >= 1_048_576)
            rec["nontrivial"].append(f"{case['key']}|{'spill' if big else 'inline'}")
            rec["sample"] = {"program": case["name"], "initializers": len(out["proto"].graph.initializer), "tensors_at_or_above_1MiB": big, "std_dir": out["listing_std"], "web_dir": out["listing_web"]}
        elif case["src"] == "registry":
            from vlib import programs, registry

            tp = registry.by_pid(case["pid"])
            prog = programs.from_registry(tp)
            kw = dict(prog.kwargs)
            if prog.params:
                kw["input_params"] = prog.params
            out = _export_all_modes(prog.make_fn(), prog.specs(), prog.dp, d, kw)
            ref = _normalise(out["proto"])
            for mode, err in (out.get("reload_errors") or {}).items():
                rec["violations"].append({"family": prog.family, "program": prog.pid, "kind": "reload_fails", "cls": mode, "text": f"{prog.pid}: the {mode} export cannot be reloaded: {err}"})
            for mode in ("ir", "file_standard", "file_web"):
                rec["evals"] += 1
                if out[mode] is not None and _normalise(out[mode]) != ref:
                    rec["violations"].append({"family": prog.family, "program": prog.pid, "kind": "mode_mismatch", "cls": mode, "text": f"{prog.pid}: return mode {mode} is not the same model as 'proto'"})
            rec["nontrivial"].append(case["key"])
            rec["sample"] = {"program": prog.pid, "modes": ["proto", "ir", "file_standard", "file_web"]}
        elif case["src"] == "seq":
            seq = dict(SEQUENCES)[case["name"]]
            path = os.path.join(d, "same", "model.onnx")
            steps = []
            for pname, mode in seq:
                spec = P[pname]
                fn, inputs = _fn_of(spec), _spec_inputs(spec)
                expected = to_onnx(fn, inputs, enable_double_precision=spec["dp"])
                to_onnx(fn, inputs, enable_double_precision=spec["dp"], return_mode="file", output_path=path, export_mode=mode)
                rec["evals"] += 1
                listing = sorted(os.listdir(os.path.dirname(path)))
                try:
                    got = _load(path)
                except Exception as exc:  # noqa: BLE001
                    rec["violations"].append({"family": f"seq/{case['name']}", "kind": "reload_fails", "cls": f"{pname}:{mode}", "text": f"sequence {case['name']}: reloading after step {pname}:{mode} fails: {type(exc).__name__}: {str(exc)[:200]}"})
                    continue
                if _normalise(got) != _normalise(expected):
                    rec["violations"].append({"family": f"seq/{case['name']}", "kind": "stale_or_wrong_bytes", "cls": f"{pname}:{mode}", "text": f"sequence {case['name']}: model reloaded after step {pname}:{mode} is not the requested model (dir: {listing})"})
                if mode == "web":
                    raw = onnx.load(path, load_external_data=False)
                    if listing != ["model.onnx"] or any(len(t.external_data) for _, t in modelwalk.iter_all_tensors(raw)):
                        rec["violations"].append({"family": f"seq/{case['name']}", "kind": "web_not_single_file", "cls": f"{pname}:{mode}", "text": f"sequence {case['name']}: after web export the directory holds {listing}"})
                steps.append({"step": f"{pname}:{mode}", "dir": listing, "data_bytes": os.path.getsize(path + ".data") if os.path.exists(path + ".data") else 0})
            rec["nontrivial"].append(case["key"])
            rec["sample"] = {"sequence": case["name"], "steps": steps}
        else:
            spec = P["matmul_600_s0"]
            fn, inputs = _fn_of(spec), _spec_inputs(spec)
            expected = _normalise(to_onnx(fn, inputs))
            name = case["name"]
            if name == "missing_directory":
                path = os.path.join(d, "a", "b", "c", "m.onnx")
                ret = to_onnx(fn, inputs, return_mode="file", output_path=path)
                ok = _normalise(_load(path)) == expected and ret == path
            elif name == "pathlike_path":
                path = pathlib.Path(d) / "pl" / "m.onnx"
                ret = to_onnx(fn, inputs, return_mode="file", output_path=path)
                ok = _normalise(_load(str(path))) == expected and isinstance(ret, str)
            elif name.startswith("spelling_"):
                path = os.path.join(d, "sp", "m.onnx")
                if name == "spelling_web_after_standard":
                    to_onnx(fn, inputs, return_mode="file", output_path=path)
                    small = P["matmul_8_s0"]
                    fn, inputs = _fn_of(small), _spec_inputs(small)
                    expected = _normalise(to_onnx(fn, inputs))
                kwm = {"spelling_Web": dict(return_mode="file", export_mode="Web"), "spelling_WEB_spaces": dict(return_mode="file", export_mode=" WEB "),
                       "spelling_Standard": dict(return_mode="file", export_mode="Standard"), "spelling_return_mode_File": dict(return_mode=" File ", export_mode="web"),
                       "spelling_web_after_standard": dict(return_mode="file", export_mode="Web")}[name]
                try:
                    to_onnx(fn, inputs, output_path=path, **kwm)
                    listing = sorted(os.listdir(os.path.dirname(path)))
                    raw = onnx.load(path, load_external_data=False)
                    ok = _normalise(_load(path)) == expected
                    if "web" in str(kwm["export_mode"]).lower():
                        ok = ok and listing == ["m.onnx"] and not any(len(t.external_data) for _, t in modelwalk.iter_all_tensors(raw))
                except ValueError:
                    ok = True  # an explicit rejection of the spelling is fine
                    rec["obs"]["spelling_rejected"] = 1
            elif name == "relative_path":
                os.chdir(d)
                ret = to_onnx(fn, inputs, return_mode="file", output_path="rel.onnx")
                ok = _normalise(_load(os.path.join(d, "rel.onnx"))) == expected
                os.chdir(cwd)
            else:
                irm = to_onnx(fn, inputs, return_mode="ir")
                # mutate the returned object heavily
                for node in list(irm.graph):
                    node.op_type = "Identity" if node.op_type != "Identity" else "Neg"
                irm.graph.outputs.clear()
                again = to_onnx(fn, inputs)
                ok = _normalise(again) == expected
            rec["evals"] += 1
            rec["nontrivial"].append(case["key"])
            if not ok:
                rec["violations"].append({"family": f"misc/{name}", "kind": "mode_mismatch", "cls": name, "text": f"{name}: the delivered model is not the requested one"})
            rec["sample"] = {"case": name, "ok": ok}
    finally:
        os.chdir(cwd)
        shutil.rmtree(d, ignore_errors=True)
    rec["status"] = "violated" if rec["violations"] else "held"
    return rec
