"""C01 — exported model computes the same function as the JAX callable."""

from __future__ import annotations

from typing import Any

from vlib import inputs as vin
from vlib import programs, recs, registry
from vlib.substrate import stable_hash


def _registry_cases(tier: str, seed: int) -> list[dict[str, Any]]:
    cases = []
    per_family: dict[tuple[str, bool], int] = {}
    for tp in registry.corpus():
        heavy = registry.is_heavy(tp)
        if tier == "quick":
            if heavy:
                continue
            k = (tp["_family"], tp["_dp"])
            n = per_family.get(k, 0)
            per_family[k] = n + 1
            if n >= (2 if not tp["_dp"] else 1):
                continue
        cases.append({"key": f"reg:{tp['_pid']}", "src": "registry", "pid": tp["_pid"], "cost": 30.0 if heavy else 1.0,
                      "timeout": 900 if heavy else None})
    for c in cases:
        if c["timeout"] is None:
            del c["timeout"]
    return cases


def enumerate_cases(tier: str, seed: int) -> list[dict[str, Any]]:
    cases = _registry_cases(tier, seed)
    try:
        from vlib import sentinels

        cases += sentinels.cases("C01", tier, seed)
    except ImportError:
        pass
    try:
        from vlib import generated

        cases += generated.cases("C01", tier, seed)
    except ImportError:
        pass
    return recs.only_filter(cases)


def _draws(pid: str, tier: str, seed: int) -> list[tuple[str, str]]:
    all_ = list(vin.DRAW_CLASSES)
    if tier == "thorough":
        return all_ + all_  # every class twice with independent filler
    h = stable_hash(pid) + seed
    rest = all_[1:]
    return [all_[0], rest[h % len(rest)], rest[(h // 7 + 3) % len(rest)]]


def run_case(case: dict[str, Any], tier: str, seed: int) -> dict[str, Any]:
    if case["src"] == "registry":
        tp = registry.by_pid(case["pid"])
        prog = programs.from_registry(tp)
    elif case["src"] == "sentinel":
        from vlib import sentinels

        prog = sentinels.build(case)
    else:
        from vlib import generated

        prog = generated.build(case)
    if not prog.numeric:
        return {"status": "skipped", "reason": "metadata_skips_numeric_validation"}
    res = programs.differential(prog, _draws(prog.pid, tier, seed), seed=seed)
    rec = recs.record_from_differential(prog, res)
    if case["src"] == "generated" and rec.get("violations"):
        from vlib import generated

        classes = sorted({v["cls"] for v in rec["violations"]})
        mini = generated.minimise(case, [d for d in vin.DRAW_CLASSES if programs.relevant_class(prog.signature({}), *d) in classes] or _draws(prog.pid, tier, seed), seed)
        for v in rec["violations"]:
            v["family"] = "gen/" + (mini[1] if mini else "composition")
            v["text"] = (f"first diverging step {mini[0]} = {mini[1]}; " if mini else "not reducible to one step; ") + v["text"]
    if case["src"] == "generated":
        rec.setdefault("obs", {})["generated_programs"] = 1
        if rec.get("sample") is not None:
            rec["sample"]["recipe_ops"] = [s_[0] for s_ in case["recipe"]["steps"]]
    if case["src"] == "sentinel":
        from vlib import sentinels

        for extra in sentinels.extra_programs(case):
            r2 = recs.record_from_differential(extra, programs.differential(extra, [], seed=seed))
            rec["evals"] = rec.get("evals", 0) + r2.get("evals", 0)
            rec.setdefault("nontrivial", []).extend(r2.get("nontrivial", []))
            rec.setdefault("violations", []).extend(r2.get("violations", []))
            if r2.get("status") == "violated" or (rec.get("status") in ("inconclusive", "skipped") and r2.get("status") == "held"):
                rec["status"] = r2["status"]
    return rec
