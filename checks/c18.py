"""C18 — the bundled validation helper (allclose) is a sound oracle."""

from __future__ import annotations

import os
import shutil
import tempfile
from typing import Any

import numpy as np
import onnx
from onnx import TensorProto, helper, numpy_helper

from vlib import ortrun, recs
from vlib.substrate import stable_hash


def _programs() -> dict[str, dict[str, Any]]:
    import jax
    import jax.numpy as jnp

    P: dict[str, dict[str, Any]] = {}

    def sds(shape, dt):
        return jax.ShapeDtypeStruct(shape, dt)

    P["float_vec"] = {"fn": lambda x: jnp.tanh(x) * 3.0, "specs": [sds((6,), jnp.float32)], "x": lambda r: [r.standard_normal(6).astype(np.float32)]}
    P["float_square"] = {"fn": lambda x: x @ x.T + 1.0, "specs": [sds((4, 4), jnp.float32)], "x": lambda r: [r.standard_normal((4, 4)).astype(np.float32)]}
    P["float_large_values"] = {"fn": lambda x: x * 1000.0, "specs": [sds((5,), jnp.float32)], "x": lambda r: [r.uniform(1, 2, 5).astype(np.float32)]}
    P["int_vec"] = {"fn": lambda x: x * 2 + 1, "specs": [sds((6,), jnp.int32)], "x": lambda r: [r.integers(-5, 5, 6).astype(np.int32)]}
    P["int_large_values"] = {"fn": lambda x: x * 1000 + 4000, "specs": [sds((6,), jnp.int32)], "x": lambda r: [r.integers(1, 9, 6).astype(np.int32)]}
    P["int64_huge_values"] = {"fn": lambda x: x * (2**40) + 3, "specs": [sds((4,), jnp.int64)], "x": lambda r: [r.integers(1, 9, 4).astype(np.int64)], "dp": True}
    P["uint8_vec"] = {"fn": lambda x: x // 2 + 100, "specs": [sds((6,), jnp.uint8)], "x": lambda r: [r.integers(0, 250, 6).astype(np.uint8)]}
    P["bool_vec"] = {"fn": lambda x: x > 0, "specs": [sds((6,), jnp.float32)], "x": lambda r: [np.array([0.5, -0.5, 1.0, -1.0, 2.0, -2.0], np.float32)]}
    P["multi_out"] = {
        "fn": lambda x, k: (jnp.sin(x), k + 1, x.sum(axis=0)),
        "specs": [sds((3, 4), jnp.float32), sds((4,), jnp.int32)],
        "x": lambda r: [r.standard_normal((3, 4)).astype(np.float32), r.integers(0, 9, 4).astype(np.int32)],
    }
    P["complex_out"] = {"fn": lambda z: z * z, "specs": [sds((4,), jnp.complex64)], "x": lambda r: [(r.standard_normal(4) + 1j * r.standard_normal(4)).astype(np.complex64)]}
    P["nchw_image"] = {
        "fn": lambda x: x * 2.0 + 1.0,
        "specs": [sds((2, 3, 3, 3), jnp.float32)],
        "x": lambda r: [r.standard_normal((2, 3, 3, 3)).astype(np.float32)],
        "kw": {"inputs_as_nchw": [0], "outputs_as_nchw": [0]},
    }
    P["double_vec"] = {"fn": lambda x: jnp.exp(x) - 0.1, "specs": [sds((5,), jnp.float64)], "x": lambda r: [r.standard_normal(5)], "dp": True}
    return P


# perturbation kinds: (name, applies-to dtype class of the targeted output)
PERTURB = [
    "identity",
    "eps_one_0.1x", "eps_one_2x", "eps_one_10x", "eps_all_0.1x", "eps_all_2x", "eps_all_10x",
    "flip_bool", "int_plus_one", "int_all_plus_one", "int_one_plus_three", "int_as_float_plus_0.4", "int32_as_int64_plus_2p32", "int_as_float_same",
    "nan_one", "inf_one", "neg_inf_one",
    "reshape_same_size", "append_unit_axis", "transpose_square", "flatten",
    "drop_last_output", "duplicate_output", "swap_outputs",
    "dtype_only_f64", "dtype_only_f16_roundtrip", "swap_real_imag", "scale_1p01", "sign_flip_one", "zero_one",
    "abs_1e-4_all", "rel_3e-5_all", "abs_3e-6_one",
]
TOLS = [(1e-3, 1e-5), (1e-5, 1e-7), (0.0, 0.0), (1e-1, 1e-2), (0.0, 1e-6), (1e-6, 0.0), (0, 0), (0.0, 1e-2), (1e-2, 0.0)]
# perturbations whose size does not depend on the tolerances: run against the whole tolerance grid
GRID_KINDS = ("identity", "abs_1e-4_all", "rel_3e-5_all", "abs_3e-6_one", "scale_1p01")


def enumerate_cases(tier: str, seed: int) -> list[dict[str, Any]]:
    cases = []
    tols = TOLS if tier == "thorough" else TOLS[:2]
    exact_kinds = ("flip_bool", "int_plus_one", "int_all_plus_one", "int_one_plus_three")
    for pname in _programs():
        for k in PERTURB:
            for ti, _ in enumerate(TOLS):
                if k in exact_kinds:
                    # integers and booleans are compared exactly whatever tolerances the caller passes
                    if tier == "quick" and ti not in (0, 3):
                        continue
                elif k in GRID_KINDS:
                    if tier == "quick" and pname not in ("float_vec", "float_large_values", "multi_out", "double_vec"):
                        continue
                elif ti >= len(tols) or (ti > 0 and not k.startswith("eps")):
                    continue
                cases.append({"key": f"{pname}|{k}|tol{ti}", "prog": pname, "perturb": k, "tol": ti, "cost": 1.0})
    for fault in ("inputs_the_model_rejects", "truncated_model_file", "missing_model_file", "wrong_input_count", "function_raises"):
        for init in (False, True):
            for dp in (False, True):
                cases.append({"key": f"raising|{fault}|x64init={int(init)}|dp={int(dp)}", "src": "raising", "fault": fault, "init": init, "dp": dp, "cost": 1.0})
    return recs.only_filter(cases)


def _raising_case(case: dict[str, Any]) -> dict[str, Any]:
    """allclose leaves by exception (or reports a mismatch) - the process-wide x64 flag must be what it was."""
    import jax
    import jax.numpy as jnp
    from jax2onnx import allclose, to_onnx

    rec: dict[str, Any] = {"evals": 0, "nontrivial": [], "violations": [], "obs": {}}
    dp, init, fault = case["dp"], case["init"], case["fault"]
    dt = np.float64 if dp else np.float32
    d = tempfile.mkdtemp(prefix="c18r_")
    start = bool(jax.config.jax_enable_x64)
    try:
        fn = lambda x: jnp.tanh(x) * 2.0  # noqa: E731
        path = os.path.join(d, "m.onnx")
        to_onnx(fn, [jax.ShapeDtypeStruct((3, 4), dt)], enable_double_precision=dp, return_mode="file", output_path=path)
        xs = [np.ones((3, 4), dt)]
        call_fn = fn
        if fault == "inputs_the_model_rejects":
            xs = [np.ones((5, 4), dt)]
        elif fault == "truncated_model_file":
            raw = open(path, "rb").read()
            open(path, "wb").write(raw[: len(raw) // 2])
        elif fault == "missing_model_file":
            path = os.path.join(d, "nope.onnx")
        elif fault == "wrong_input_count":
            xs = [np.ones((3, 4), dt), np.ones((3, 4), dt)]
        elif fault == "function_raises":
            def call_fn(x):
                raise RuntimeError("reference function raises")
        jax.config.update("jax_enable_x64", init)
        outcome = "returned"
        try:
            ok, msg = allclose(call_fn, path, xs, rtol=1e-3, atol=1e-5, enable_double_precision=dp)
            outcome = f"returned {bool(ok)}"
        except BaseException as exc:  # noqa: BLE001
            outcome = f"raised {type(exc).__name__}"
            rec["obs"]["allclose_left_by_exception"] = 1
        after = bool(jax.config.jax_enable_x64)
        rec["evals"] = 1
        rec["nontrivial"].append(case["key"] + "|" + outcome.split(" ")[0])
        if after != init:
            rec["violations"].append({"family": "allclose", "kind": "flag_changed", "cls": f"{fault}:x64init={int(init)},dp={int(dp)}", "text": f"{case['key']}: allclose {outcome} and left jax_enable_x64={after}, it was {init}"})
        rec["sample"] = {"fault": fault, "x64_before": init, "enable_double_precision": dp, "outcome": outcome, "x64_after": after}
    finally:
        jax.config.update("jax_enable_x64", start)
        shutil.rmtree(d, ignore_errors=True)
    rec["status"] = "violated" if rec["violations"] else "held"
    return rec


def _const(name: str, arr: np.ndarray) -> onnx.NodeProto:
    return helper.make_node("Constant", [], [name], value=numpy_helper.from_array(arr, name))


def _perturb(model: onnx.ModelProto, kind: str, base_out: list[np.ndarray], rtol: float, atol: float, rng) -> tuple[onnx.ModelProto | None, str]:
    """Returns (perturbed model or None if the kind does not apply, description)."""
    m = onnx.ModelProto()
    m.CopyFrom(model)
    g = m.graph
    outs = list(g.output)

    def cls(a):
        a = np.asarray(a)
        return "bool" if a.dtype == np.bool_ else ("int" if np.issubdtype(a.dtype, np.integer) else "float")

    # choose the target output: first of the matching class
    def pick(want):
        for i, a in enumerate(base_out):
            if cls(a) in want and np.asarray(a).size > 0:
                return i
        return None

    def retarget(i, new_nodes, new_name, elem_type, shape):
        old = outs[i].name
        vi = helper.make_tensor_value_info(new_name, elem_type, shape)
        g.node.extend(new_nodes)
        del g.output[:]
        for j, o in enumerate(outs):
            g.output.append(vi if j == i else o)
        return old

    def tproto(a):
        return helper.np_dtype_to_tensor_dtype(np.asarray(a).dtype)

    if kind == "identity":
        return m, "unchanged model"
    if kind.startswith("eps_"):
        i = pick({"float"})
        if i is None:
            return None, ""
        a = np.asarray(base_out[i])
        mult = float(kind.split("_")[-1][:-1])
        # the allowed deviation at the targeted element(s)
        allowed = atol + rtol * np.abs(a.astype(np.float64))
        if kind.startswith("eps_one"):
            pos = int(rng.integers(a.size))
            delta = np.zeros(a.shape, np.float64)
            delta.flat[pos] = mult * allowed.flat[pos] * (1 if rng.random() < 0.5 else -1)
        else:
            delta = mult * allowed * rng.choice([-1.0, 1.0], a.shape)
        if mult > 1 and not np.any(delta != 0):
            delta = np.full(a.shape, 1e-3)
        d = delta.astype(a.dtype)
        retarget(i, [_const("c18_delta", d), helper.make_node("Add", [outs[i].name, "c18_delta"], ["c18_out"])], "c18_out", tproto(a), list(a.shape))
        return m, f"{kind}: add {mult}x the allowed deviation"
    if kind in ("abs_1e-4_all", "rel_3e-5_all", "abs_3e-6_one"):
        i = pick({"float"})
        if i is None:
            return None, ""
        a = np.asarray(base_out[i])
        if kind == "abs_1e-4_all":
            delta = np.full(a.shape, 1e-4)
        elif kind == "rel_3e-5_all":
            delta = 3e-5 * np.abs(a.astype(np.float64)) + 1e-30
        else:
            delta = np.zeros(a.shape, np.float64)
            delta.flat[int(rng.integers(a.size))] = 3e-6
        retarget(i, [_const("c18_delta", delta.astype(a.dtype)), helper.make_node("Add", [outs[i].name, "c18_delta"], ["c18_out"])], "c18_out", tproto(a), list(a.shape))
        return m, kind
    if kind == "flip_bool":
        i = pick({"bool"})
        if i is None:
            return None, ""
        a = np.asarray(base_out[i])
        mask = np.zeros(a.shape, bool)
        mask.flat[int(rng.integers(a.size))] = True
        retarget(i, [_const("c18_mask", mask), helper.make_node("Xor", [outs[i].name, "c18_mask"], ["c18_out"])], "c18_out", TensorProto.BOOL, list(a.shape))
        return m, "one boolean flipped"
    if kind in ("int_plus_one", "int_all_plus_one", "int_one_plus_three", "int_as_float_plus_0.4", "int32_as_int64_plus_2p32", "int_as_float_same"):
        i = pick({"int"})
        if i is None:
            return None, ""
        a = np.asarray(base_out[i])
        if kind == "int_plus_one":
            d = np.zeros(a.shape, a.dtype)
            d.flat[int(rng.integers(a.size))] = 1
            nodes = [_const("c18_d", d), helper.make_node("Add", [outs[i].name, "c18_d"], ["c18_out"])]
            et = tproto(a)
        elif kind in ("int_all_plus_one", "int_one_plus_three"):
            d = np.ones(a.shape, a.dtype) if kind == "int_all_plus_one" else np.zeros(a.shape, a.dtype)
            if kind == "int_one_plus_three":
                d.flat[int(rng.integers(a.size))] = 3
            nodes = [_const("c18_d", d), helper.make_node("Add", [outs[i].name, "c18_d"], ["c18_out"])]
            et = tproto(a)
        elif kind == "int_as_float_plus_0.4":
            nodes = [helper.make_node("Cast", [outs[i].name], ["c18_f"], to=TensorProto.FLOAT), _const("c18_d", np.float32(0.4).reshape(())), helper.make_node("Add", ["c18_f", "c18_d"], ["c18_out"])]
            et = TensorProto.FLOAT
        elif kind == "int_as_float_same":
            nodes = [helper.make_node("Cast", [outs[i].name], ["c18_out"], to=TensorProto.FLOAT)]
            et = TensorProto.FLOAT
        else:
            nodes = [helper.make_node("Cast", [outs[i].name], ["c18_f"], to=TensorProto.INT64), _const("c18_d", np.int64(2**32).reshape(())), helper.make_node("Add", ["c18_f", "c18_d"], ["c18_out"])]
            et = TensorProto.INT64
        retarget(i, nodes, "c18_out", et, list(a.shape))
        return m, kind
    if kind in ("nan_one", "inf_one", "neg_inf_one", "sign_flip_one", "zero_one", "scale_1p01"):
        i = pick({"float"})
        if i is None:
            return None, ""
        a = np.asarray(base_out[i])
        mask = np.zeros(a.shape, bool)
        pos = int(np.argmax(np.abs(a))) if kind in ("sign_flip_one", "zero_one") else int(rng.integers(a.size))
        mask.flat[pos] = True
        if kind == "scale_1p01":
            nodes = [_const("c18_s", np.asarray(1.01, a.dtype).reshape(())), helper.make_node("Mul", [outs[i].name, "c18_s"], ["c18_out"])]
        elif kind == "sign_flip_one":
            s = np.ones(a.shape, a.dtype)
            s.flat[pos] = -1
            nodes = [_const("c18_s", s), helper.make_node("Mul", [outs[i].name, "c18_s"], ["c18_out"])]
        elif kind == "zero_one":
            s = np.ones(a.shape, a.dtype)
            s.flat[pos] = 0
            nodes = [_const("c18_s", s), helper.make_node("Mul", [outs[i].name, "c18_s"], ["c18_out"])]
        else:
            val = {"nan_one": np.nan, "inf_one": np.inf, "neg_inf_one": -np.inf}[kind]
            nodes = [_const("c18_mask", mask), _const("c18_v", np.asarray(val, a.dtype).reshape(())), helper.make_node("Where", ["c18_mask", "c18_v", outs[i].name], ["c18_out"])]
        retarget(i, nodes, "c18_out", tproto(a), list(a.shape))
        return m, kind
    if kind in ("reshape_same_size", "append_unit_axis", "transpose_square", "flatten"):
        i = None
        for j, a in enumerate(base_out):
            a = np.asarray(a)
            if kind == "transpose_square" and not (a.ndim == 2 and a.shape[0] == a.shape[1] and a.shape[0] > 1):
                continue
            if kind == "reshape_same_size" and not (a.ndim >= 1 and a.size % 2 == 0 and a.size >= 4):
                continue
            if kind == "flatten" and a.ndim < 2:
                continue
            i = j
            break
        if i is None:
            return None, ""
        a = np.asarray(base_out[i])
        if kind == "reshape_same_size":
            new_shape = [2, a.size // 2] if list(a.shape) != [2, a.size // 2] else [a.size // 2, 2]
            nodes = [_const("c18_shape", np.array(new_shape, np.int64)), helper.make_node("Reshape", [outs[i].name, "c18_shape"], ["c18_out"])]
        elif kind == "flatten":
            new_shape = [a.size]
            nodes = [_const("c18_shape", np.array(new_shape, np.int64)), helper.make_node("Reshape", [outs[i].name, "c18_shape"], ["c18_out"])]
        elif kind == "append_unit_axis":
            new_shape = list(a.shape) + [1]
            nodes = [_const("c18_ax", np.array([a.ndim], np.int64)), helper.make_node("Unsqueeze", [outs[i].name, "c18_ax"], ["c18_out"])]
        else:
            new_shape = list(a.shape)
            nodes = [helper.make_node("Transpose", [outs[i].name], ["c18_out"], perm=[1, 0])]
        retarget(i, nodes, "c18_out", tproto(a), new_shape)
        return m, kind
    if kind == "drop_last_output":
        if len(outs) < 2:
            return None, ""
        del g.output[:]
        g.output.extend(outs[:-1])
        return m, "last output dropped"
    if kind == "duplicate_output":
        a = np.asarray(base_out[0])
        g.node.append(helper.make_node("Identity", [outs[0].name], ["c18_dup"]))
        g.output.append(helper.make_tensor_value_info("c18_dup", tproto(a), list(a.shape)))
        return m, "extra output appended"
    if kind == "swap_outputs":
        if len(outs) < 2:
            return None, ""
        del g.output[:]
        g.output.extend([outs[1], outs[0]] + outs[2:])
        return m, "outputs 0 and 1 swapped"
    if kind in ("dtype_only_f64", "dtype_only_f16_roundtrip"):
        i = pick({"float"})
        if i is None:
            return None, ""
        a = np.asarray(base_out[i])
        if kind == "dtype_only_f64":
            if a.dtype == np.float64:
                return None, ""
            nodes = [helper.make_node("Cast", [outs[i].name], ["c18_out"], to=TensorProto.DOUBLE)]
            et = TensorProto.DOUBLE
        else:
            nodes = [helper.make_node("Cast", [outs[i].name], ["c18_h"], to=TensorProto.FLOAT16), helper.make_node("Cast", ["c18_h"], ["c18_out"], to=tproto(a))]
            et = tproto(a)
        retarget(i, nodes, "c18_out", et, list(a.shape))
        return m, kind
    if kind == "swap_real_imag":
        # only meaningful for the complex program: trailing pair
        a = np.asarray(base_out[0])
        if not (a.ndim >= 1 and a.shape[-1] == 2 and cls(a) == "float"):
            return None, ""
        nodes = [_const("c18_idx", np.array([1, 0], np.int64)), helper.make_node("Gather", [outs[0].name, "c18_idx"], ["c18_out"], axis=a.ndim - 1)]
        retarget(0, nodes, "c18_out", tproto(a), list(a.shape))
        return m, kind
    return None, ""


def _deviates(expected: list[np.ndarray], got: list[np.ndarray], rtol: float, atol: float, out_nchw, scale: float = 1.0) -> tuple[bool, str]:
    """Independent measurement: does ORT(M') deviate from fn beyond (rtol, atol)?"""
    if len(expected) != len(got):
        return True, "output count"
    for i, (e, g) in enumerate(zip(expected, got)):
        e, g = np.asarray(e), np.asarray(g)
        if out_nchw and i in out_nchw and g.ndim == 4:
            g = np.transpose(g, (0, 2, 3, 1))
        if np.iscomplexobj(e):
            if g.ndim == e.ndim + 1 and g.shape[-1] == 2:
                g = g[..., 0] + 1j * g[..., 1]
        if e.shape != g.shape:
            return True, f"shape of output {i}"
        if np.iscomplexobj(e) or np.issubdtype(e.dtype, np.floating) or np.issubdtype(g.dtype, np.floating):
            e64, g64 = e.astype(np.complex128 if np.iscomplexobj(e) or np.iscomplexobj(g) else np.float64), g.astype(np.complex128 if np.iscomplexobj(e) or np.iscomplexobj(g) else np.float64)
            nan_e, nan_g = np.isnan(e64), np.isnan(g64)
            if np.any(nan_e != nan_g):
                return True, f"NaN pattern of output {i}"
            ok = ~nan_e
            with np.errstate(invalid="ignore"):
                dev = np.abs(e64[ok] - g64[ok])
                lim = (atol + rtol * np.abs(e64[ok])) * scale
                inf_mismatch = np.isinf(e64[ok]) | np.isinf(g64[ok])
                bad = np.where(inf_mismatch, e64[ok] != g64[ok], dev > lim * (1 + 1e-9) + 1e-300)
            if np.any(bad):
                return True, f"values of output {i}"
        else:
            if not np.array_equal(e.astype(np.int64) if e.dtype != np.bool_ else e, g.astype(np.int64) if g.dtype != np.bool_ else g):
                return True, f"integer/bool values of output {i}"
            if (e.dtype == np.bool_) != (g.dtype == np.bool_):
                return True, f"dtype class of output {i}"
    return False, ""


def run_case(case: dict[str, Any], tier: str, seed: int) -> dict[str, Any]:
    import jax
    from jax2onnx import allclose, to_onnx

    if case.get("src") == "raising":
        return _raising_case(case)
    spec = _programs()[case["prog"]]
    rtol, atol = TOLS[case["tol"]]
    rng = np.random.default_rng([seed, stable_hash(case["key"]) % 2**31])
    dp = bool(spec.get("dp"))
    kw = dict(spec.get("kw", {}))
    rec: dict[str, Any] = {"evals": 0, "nontrivial": [], "violations": [], "obs": {}}
    model = to_onnx(spec["fn"], spec["specs"], enable_double_precision=dp, **kw)
    xs = spec["x"](rng)
    feed_xs = [np.transpose(x, (0, 3, 1, 2)) if i in (kw.get("inputs_as_nchw") or []) else x for i, x in enumerate(xs)]
    base_out = ortrun.run_model(model, feed_xs)
    pm, desc = _perturb(model, case["perturb"], base_out, rtol, atol, rng)
    if pm is None:
        return {"status": "skipped", "reason": "perturbation_not_applicable_to_program"}
    try:
        onnx.checker.check_model(pm)
        got = ortrun.run_model(pm, feed_xs)
    except Exception as exc:  # noqa: BLE001
        return {"status": "inconclusive", "reason": "perturbed_model_not_executable", "detail": str(exc)[:200]}
    from vlib import registry

    expected = registry.eval_jax(spec["fn"], xs, {}, dp)
    # |a-b| <= atol + rtol*|b| can be read with b = reference or b = model output: the two readings
    # differ by a factor (1 +- rtol).  A deviation inside that band is not decidable from outside.
    band = 1.0 + 2.0 * float(rtol) + 1e-3
    deviates, what = _deviates(expected, got, rtol, atol, kw.get("outputs_as_nchw"), scale=band)
    deviates_lo, _ = _deviates(expected, got, rtol, atol, kw.get("outputs_as_nchw"), scale=1.0 / band)
    if deviates != deviates_lo:
        return {"status": "skipped", "reason": "deviation_on_the_tolerance_boundary"}
    d = tempfile.mkdtemp(prefix="c18_")
    x64_before = bool(jax.config.jax_enable_x64)
    try:
        path = os.path.join(d, "m.onnx")
        onnx.save_model(pm, path)
        try:
            ok, msg = allclose(spec["fn"], path, xs, rtol=rtol, atol=atol, enable_double_precision=dp, **kw)
        except Exception as exc:  # noqa: BLE001  a raising helper is loud, not unsound
            ok, msg = False, f"raised {type(exc).__name__}: {str(exc)[:100]}"
            rec["obs"]["allclose_raised"] = 1
    finally:
        shutil.rmtree(d, ignore_errors=True)
    x64_after = bool(jax.config.jax_enable_x64)
    rec["evals"] = 1
    if x64_after != x64_before:
        rec["violations"].append({"family": "allclose", "kind": "flag_changed", "cls": case["perturb"], "text": f"allclose left jax_enable_x64={x64_after}, was {x64_before}"})
        jax.config.update("jax_enable_x64", x64_before)
    if deviates:
        rec["nontrivial"].append(f"{case['prog']}|{case['perturb']}|tol{case['tol']}")
        rec["obs"]["deviating_models_presented"] = 1
        if ok:
            rec["violations"].append(
                {"family": "allclose", "kind": "unsound_match", "cls": case["perturb"],
                 "text": f"{case['key']}: allclose reports a match although ORT deviates from fn in {what} (rtol={rtol}, atol={atol}; {desc})"}
            )
    else:
        rec["obs"]["equivalent_models_presented"] = 1
        if not ok:
            rec["obs"]["false_mismatch_on_equivalent_model(observation only)"] = 1
    rec["status"] = "violated" if rec["violations"] else "held"
    rec["sample"] = {"program": case["prog"], "perturbation": case["perturb"], "rtol": rtol, "atol": atol, "harness_says_deviates": deviates, "where": what, "allclose": [bool(ok), str(msg)[:80]]}
    return rec
