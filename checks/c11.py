"""C11 — the requested opset is honoured."""

from __future__ import annotations

from typing import Any

import numpy as np
import onnx
from onnx import defs

from vlib import inputs as vin
from vlib import modelwalk, oracle, ortrun, programs, recs, registry
from vlib.substrate import stable_hash

NEWEST = defs.onnx_opset_version()
CLAIMED = list(range(21, NEWEST + 1))
REPORT_ONLY = [13, 17, 20]


def schema_problems(model: onnx.ModelProto, opset: int) -> tuple[list[dict[str, str]], int]:
    probs: list[dict[str, str]] = []
    n = 0
    declared = {(oi.domain if oi.domain != "ai.onnx" else ""): oi.version for oi in model.opset_import}
    if declared.get("") != opset:
        probs.append({"kind": "declared_opset", "text": f"model declares default-domain opset {declared.get('')}, requested {opset}"})
    fn_keys = {(f.domain, f.name) for f in model.functions}
    for f in model.functions:
        fo = {(oi.domain if oi.domain != "ai.onnx" else ""): oi.version for oi in f.opset_import}
        if "" in fo and fo[""] > opset:
            probs.append({"kind": "declared_opset", "text": f"function {f.domain}::{f.name} imports default opset {fo['']} > requested {opset}"})
    for path, node in modelwalk.iter_all_nodes(model):
        dom = "" if node.domain in ("", "ai.onnx") else node.domain
        if (node.domain, node.op_type) in fn_keys:
            continue
        if dom != "":
            continue  # contrib domains carry their own versioning
        n += 1
        try:
            sch = defs.get_schema(node.op_type, max_inclusive_version=opset, domain=dom)
        except Exception:  # noqa: BLE001
            since = None
            try:
                since = defs.get_schema(node.op_type, domain=dom).since_version
            except Exception:  # noqa: BLE001
                pass
            probs.append({"kind": "op_not_in_opset", "text": f"{path}: {node.op_type} does not exist at opset {opset}" + (f" (first defined in {since})" if since else "")})
            continue
        if sch.deprecated:
            probs.append({"kind": "op_not_in_opset", "text": f"{path}: {node.op_type} is deprecated at opset {opset}"})
        known_attrs = set(sch.attributes)
        for a in node.attribute:
            if a.name not in known_attrs:
                probs.append({"kind": "attribute_not_in_opset", "text": f"{path}: attribute {a.name!r} is not part of {node.op_type}-{sch.since_version} (opset {opset})"})
        n_in = len(node.input)
        variadic = bool(sch.inputs) and sch.inputs[-1].option == defs.OpSchema.FormalParameterOption.Variadic
        if not variadic and n_in > len(sch.inputs):
            probs.append({"kind": "input_form_not_in_opset", "text": f"{path}: {n_in} inputs, {node.op_type}-{sch.since_version} takes at most {len(sch.inputs)}"})
        if n_in < sch.min_input:
            probs.append({"kind": "input_form_not_in_opset", "text": f"{path}: {n_in} inputs, {node.op_type}-{sch.since_version} needs at least {sch.min_input}"})
        n_out = len(node.output)
        ovar = bool(sch.outputs) and sch.outputs[-1].option == defs.OpSchema.FormalParameterOption.Variadic
        if not ovar and n_out > len(sch.outputs):
            probs.append({"kind": "input_form_not_in_opset", "text": f"{path}: {n_out} outputs, {node.op_type}-{sch.since_version} yields at most {len(sch.outputs)}"})
    return probs, n


def enumerate_cases(tier: str, seed: int) -> list[dict[str, Any]]:
    cases = []
    per_family: dict[str, int] = {}
    for tp in registry.corpus():
        if tp["_dp"] and tier == "quick":
            continue
        heavy = registry.is_heavy(tp)
        if heavy:
            continue
        if tier == "quick":
            n = per_family.get(tp["_family"], 0)
            per_family[tp["_family"]] = n + 1
            pins = tp.get("opset_version") is not None
            if n >= 1 and not pins:
                continue
            extra = [25, 26][(stable_hash(tp["_pid"]) + seed) % 2]
            opsets = [21, 24, extra, NEWEST]
            if pins:
                # an opset-gated lowering: probe both sides of its gate and the default
                own_ = int(tp["opset_version"])
                opsets += [23, own_ - 1, own_ + 1]
                opsets = [o for o in opsets if 21 <= o <= NEWEST]
        else:
            opsets = list(CLAIMED)
            if (stable_hash(tp["_pid"]) + seed) % 4 == 0:
                opsets += REPORT_ONLY
        own = tp.get("opset_version")
        if own is not None and own not in opsets:
            opsets.append(own)
        cases.append({"key": f"reg:{tp['_pid']}", "src": "registry", "pid": tp["_pid"], "opsets": sorted(set(opsets)), "cost": len(opsets)})
    for name in _dtype_programs():
        cases.append({"key": f"dtype:{name}", "src": "dtype", "name": name, "opsets": list(CLAIMED), "cost": 7.0})
    return recs.only_filter(cases)


def _dtype_programs() -> dict[str, dict[str, Any]]:
    """Programs over element types whose operator support changed between opsets."""
    import jax
    import jax.numpy as jnp
    from jax import lax

    P: dict[str, dict[str, Any]] = {}
    f16, bf16 = jnp.float16, jnp.bfloat16
    sc = lambda dt: jax.ShapeDtypeStruct((), dt)  # noqa: E731
    v = lambda dt, n=6: jax.ShapeDtypeStruct((n,), dt)  # noqa: E731
    for nm, dt in (("f16", f16), ("bf16", bf16), ("i8", jnp.int8), ("u8", jnp.uint8), ("i16", jnp.int16)):
        P[f"arange_dynamic_stop_{nm}"] = {"fn": (lambda dt: lambda stop: jnp.arange(stop, dtype=dt))(dt), "specs": [sc(jnp.float32)], "x": [np.float32(5.0)]}
        P[f"arange_dynamic_start_stop_step_{nm}"] = {"fn": (lambda dt: lambda a, b: jnp.arange(a, b, 2, dtype=dt))(dt), "specs": [sc(jnp.int32), sc(jnp.int32)], "x": [np.int32(1), np.int32(9)]}
        P[f"iota_{nm}"] = {"fn": (lambda dt: lambda x: x.astype(dt) + lax.iota(dt, 6))(dt), "specs": [v(jnp.float32)], "x": [np.arange(6, dtype=np.float32)]}
        P[f"cumsum_{nm}"] = {"fn": (lambda dt: lambda x: jnp.cumsum(x.astype(dt)))(dt), "specs": [v(jnp.float32)], "x": [np.arange(6, dtype=np.float32)]}
        P[f"elementwise_{nm}"] = {"fn": (lambda dt: lambda x: jnp.maximum(x.astype(dt) * 2, x.astype(dt)) + jnp.abs(x.astype(dt)))(dt), "specs": [v(jnp.float32)], "x": [np.arange(6, dtype=np.float32)]}
        P[f"where_clip_{nm}"] = {"fn": (lambda dt: lambda x: jnp.clip(jnp.where(x > 2, x, -x).astype(dt), 0, 4))(dt), "specs": [v(jnp.float32)], "x": [np.arange(6, dtype=np.float32)]}
        P[f"reduce_{nm}"] = {"fn": (lambda dt: lambda x: (jnp.sum(x.astype(dt)), jnp.max(x.astype(dt)), jnp.argmax(x.astype(dt))))(dt), "specs": [v(jnp.float32)], "x": [np.arange(6, dtype=np.float32)]}
        P[f"gather_pad_{nm}"] = {"fn": (lambda dt: lambda x: jnp.pad(x.astype(dt)[jnp.array([3, 1])], 1))(dt), "specs": [v(jnp.float32)], "x": [np.arange(6, dtype=np.float32)]}
    for nm, dt in (("f16", f16), ("bf16", bf16)):
        P[f"activations_{nm}"] = {"fn": (lambda dt: lambda x: jax.nn.gelu(x.astype(dt)) + jax.nn.silu(x.astype(dt)) + jax.nn.softmax(x.astype(dt)))(dt), "specs": [v(jnp.float32)], "x": [np.arange(6, dtype=np.float32) / 3]}
        P[f"matmul_layernorm_{nm}"] = {"fn": (lambda dt: lambda x: ((lambda h: (h - h.mean()) / jnp.sqrt(h.var() + 1e-3))(x.astype(dt).reshape(2, 3) @ jnp.ones((3, 3), dt))))(dt), "specs": [v(jnp.float32)], "x": [np.arange(6, dtype=np.float32) / 3]}
        P[f"round_floor_{nm}"] = {"fn": (lambda dt: lambda x: jnp.round(x.astype(dt)) + jnp.floor(x.astype(dt) * 1.5))(dt), "specs": [v(jnp.float32)], "x": [np.arange(6, dtype=np.float32) / 3]}
        P[f"linspace_dynamic_{nm}"] = {"fn": (lambda dt: lambda a: jnp.linspace(a, a + 2, 5, dtype=dt))(dt), "specs": [sc(jnp.float32)], "x": [np.float32(1.0)]}
    # opset-gated components *inside* nested scopes (Loop / If / Scan bodies, ONNX function bodies):
    # the declared opset has to reach every nested lowering context
    from flax import nnx

    from vlib import fnmods

    m = lambda n=6: jax.ShapeDtypeStruct((2, n), jnp.float32)  # noqa: E731
    xm = np.arange(12, dtype=np.float32).reshape(2, 6) / 7 - 0.5
    rms = nnx.RMSNorm(6, rngs=nnx.Rngs(0))
    P["nested_rmsnorm_in_fori"] = {"fn": lambda x: lax.fori_loop(0, 2, lambda i, v: rms(v) + 0.1, x), "specs": [m()], "x": [xm]}
    P["nested_rmsnorm_in_cond"] = {"fn": lambda x: lax.cond(jnp.sum(x) > 0, lambda v: rms(v), lambda v: v * 2.0, x), "specs": [m()], "x": [xm]}
    P["nested_rmsnorm_in_scan"] = {"fn": lambda x: lax.scan(lambda c, r: (rms(c + r), c.sum()), x[0], x)[0], "specs": [m()], "x": [xm]}
    P["nested_rmsnorm_in_while"] = {"fn": lambda x: lax.while_loop(lambda s: s[0] < 2, lambda s: (s[0] + 1, rms(s[1])), (0, x))[1], "specs": [m()], "x": [xm]}
    P["nested_rmsnorm_top_level"] = {"fn": lambda x: rms(x) + 0.1, "specs": [m()], "x": [xm]}
    P["nested_silu_in_fori"] = {"fn": lambda x: lax.fori_loop(0, 2, lambda i, v: jax.nn.silu(v) + v * jax.nn.sigmoid(v), x), "specs": [m()], "x": [xm]}
    P["nested_silu_in_cond"] = {"fn": lambda x: lax.cond(jnp.sum(x) > 0, lambda v: jax.nn.silu(v), lambda v: v * jax.nn.sigmoid(v), x), "specs": [m()], "x": [xm]}
    P["nested_dus_in_fori"] = {"fn": lambda x: lax.fori_loop(0, 2, lambda i, v: lax.dynamic_update_slice(v, jnp.ones((1, 2), v.dtype), (i, 1)), x), "specs": [m()], "x": [xm]}
    P["nested_dus_in_scan"] = {"fn": lambda x: lax.scan(lambda c, r: (lax.dynamic_update_slice(c, r[:2], (1,)), c.sum()), x[0], x)[0], "specs": [m()], "x": [xm]}
    P["nested_window_sum_in_fori"] = {"fn": lambda x: lax.fori_loop(0, 2, lambda i, v: lax.reduce_window(v, 0.0, lax.add, (1, 2), (1, 1), "SAME") * 0.5, x), "specs": [m()], "x": [xm]}
    P["nested_reductions_in_cond"] = {"fn": lambda x: lax.cond(jnp.sum(x) > 0, lambda v: jnp.sum(v, axis=1) + jnp.max(v, axis=1), lambda v: jnp.mean(v, axis=1) - jnp.min(v, axis=1), x), "specs": [m()], "x": [xm]}
    q = jax.ShapeDtypeStruct((1, 4, 2, 8), jnp.float32)
    xq = (np.arange(64, dtype=np.float32).reshape(1, 4, 2, 8) / 64) - 0.4
    P["nested_attention_in_fori"] = {"fn": lambda a: lax.fori_loop(0, 2, lambda i, v: nnx.dot_product_attention(v, v, v), a), "specs": [q], "x": [xq]}
    P["nested_attention_in_cond"] = {"fn": lambda a: lax.cond(jnp.sum(a) > 0, lambda v: nnx.dot_product_attention(v, v, v), lambda v: v, a), "specs": [q], "x": [xq]}
    P["nested_gated_in_function_body"] = {"fn": fnmods.c11_outer, "specs": [m()], "x": [xm]}
    P["nested_gated_in_function_in_loop"] = {"fn": lambda x: lax.fori_loop(0, 2, lambda i, v: fnmods.c11_outer(v), x), "specs": [m()], "x": [xm]}
    return P


def run_case(case: dict[str, Any], tier: str, seed: int) -> dict[str, Any]:
    if case["src"] == "dtype":
        spec = _dtype_programs()[case["name"]]
        tp = {}
        prog = programs.Program(
            pid=case["key"], family=f"dtype/{case['name']}", make_fn=lambda: spec["fn"], specs=lambda: list(spec["specs"]),
            signature=lambda b: [(tuple(s.shape), np.dtype(s.dtype)) for s in spec["specs"]], given=[list(spec["x"])], source="dtype",
        )
    else:
        tp = registry.by_pid(case["pid"])
        prog = programs.from_registry(tp)
    rec: dict[str, Any] = {"evals": 0, "nontrivial": [], "violations": [], "obs": {}}

    def bump(k: str, n: int = 1) -> None:
        rec["obs"][k] = rec["obs"].get(k, 0) + n

    # reference: export at the default opset, two benign-ish draws
    default_opset = tp.get("opset_version", 23)
    ref_outs: list[Any] = []
    feeds: list[list[np.ndarray]] = []
    ref_model = None
    try:
        ref_model = prog.export(opset=default_opset)
        if prog.numeric and registry.randomness(ref_model) == "no":
            sess = ortrun.session(ref_model)
            sig = prog.signature({s: 2 for s in prog.symbols})
            if prog.given is not None:
                feeds = [list(prog.given[0])]
            else:
                feeds = [vin.draw(sig, fc, "benign", np.random.default_rng([seed, stable_hash(prog.pid) % 2**31, i])) for i, fc in enumerate(("benign", "uniform"))]
            for xs in feeds:
                try:
                    ref_outs.append(programs.ort_outputs_back(prog, ortrun.run(sess, ortrun.build_feed(sess, programs.ort_feeds_for(prog, xs), prog.params))))
                except Exception:  # noqa: BLE001
                    ref_outs.append(None)
    except Exception:  # noqa: BLE001
        ref_outs = []
    for opset in case["opsets"]:
        claimed = opset in CLAIMED
        tag = f"opset{opset}"
        try:
            model = prog.export(opset=opset)
        except Exception as exc:  # noqa: BLE001
            bump("export_raised_at_opset(acceptable)")
            continue
        rec["evals"] += 1
        probs, n_nodes = schema_problems(model, opset)
        bump("nodes_checked_against_schema", n_nodes)
        try:
            onnx.checker.check_model(model, full_check=True)
            bump("checker_ok")
        except Exception as exc:  # noqa: BLE001
            probs.append({"kind": "checker", "text": f"{type(exc).__name__}: {str(exc)[:300]}"})
        try:
            onnx.shape_inference.infer_shapes(model, strict_mode=True, check_type=True)
        except Exception as exc:  # noqa: BLE001
            probs.append({"kind": "strict_inference", "text": f"{type(exc).__name__}: {str(exc)[:300]}"})
        # load + numeric agreement with the default-opset export
        if opset != default_opset and feeds:
            try:
                sess = ortrun.session(model)
                bump("ort_loaded_at_opset")
                for xs, ref in zip(feeds, ref_outs):
                    if ref is None:
                        continue
                    got = programs.ort_outputs_back(prog, ortrun.run(sess, ortrun.build_feed(sess, programs.ort_feeds_for(prog, xs), prog.params)))
                    c = oracle.compare(ref, got)
                    bump("cross_opset_comparisons")
                    bump("elements_compared", c.n_compared)
                    if not c.ok and not c.unstable_only:
                        probs.append({"kind": "cross_opset_" + (c.kind or "value"), "text": f"differs from the opset-{default_opset} export: {c.text}"})
                        break
            except ortrun.OrtEnvLimit:
                bump("ort_env_limit(no runtime for this opset)")
            except ortrun.OrtLoadError as exc:
                probs.append({"kind": "ort_load", "text": str(exc)[:300]})
            except ortrun.OrtRunError as exc:
                probs.append({"kind": "ort_run", "text": str(exc)[:300]})
        if n_nodes >= 1 and opset != 23:
            rec["nontrivial"].append(f"{prog.pid}@{tag}")
        if not claimed:
            if probs:
                bump(f"report_only_problems_below_21")
            continue
        for p in probs:
            rec["violations"].append({"family": prog.family, "program": prog.pid, "kind": p["kind"], "cls": tag, "text": f"{prog.pid}@{tag}: {p['text']}"})
    rec["status"] = "violated" if rec["violations"] else "held"
    rec["sample"] = {"program": prog.pid, "opsets": case["opsets"], "default_opset": default_opset}
    return rec
