"""C10 — JAX transformations commute with export."""

from __future__ import annotations

from typing import Any

import numpy as np

from vlib import inputs as vin
from vlib import oracle, ortrun, programs, recs, registry
from vlib.substrate import stable_hash

TRANSFORMS = ["vmap0", "vmap_last", "vmap_first_only", "jit", "jit3", "grad", "jvp", "vjp", "checkpoint", "vmap_of_grad", "jit_of_vmap"]
QUICK_ALWAYS = ["vmap0", "jit3", "grad"]


def _transform(name: str, f, n_in: int, sig):
    """returns (T(f), new signature) or None if not applicable"""
    import jax
    import jax.numpy as jnp

    B = 2

    def first_leaf(o):
        return jax.tree_util.tree_leaves(o)[0]

    def scalar_of(*a):
        return jnp.sum(first_leaf(f(*a)).astype(jnp.float32))

    if name == "vmap0":
        return jax.vmap(f), [((B,) + s, dt) for s, dt in sig]
    if name == "vmap_last":
        if any(len(s) == 0 for s, _ in sig):
            return None
        return jax.vmap(f, in_axes=-1, out_axes=0), [(s + (B,), dt) for s, dt in sig]
    if name == "vmap_first_only":
        if n_in < 2:
            return None
        return jax.vmap(f, in_axes=(0,) + (None,) * (n_in - 1)), [((B,) + sig[0][0], sig[0][1])] + list(sig[1:])
    if name == "jit":
        return jax.jit(f), sig
    if name == "jit3":
        inner = jax.jit(f)
        mid = jax.jit(lambda *a: inner(*a))
        return jax.jit(lambda *a: mid(*a)), sig
    if name == "grad":
        return jax.grad(scalar_of), sig
    if name == "vmap_of_grad":
        return jax.vmap(jax.grad(scalar_of)), [((B,) + s, dt) for s, dt in sig]
    if name == "jit_of_vmap":
        return jax.jit(jax.vmap(f)), [((B,) + s, dt) for s, dt in sig]
    if name == "jvp":
        return (lambda *a: jax.jvp(f, a, tuple(jnp.ones_like(x) * 0.5 for x in a))[1]), sig
    if name == "vjp":
        def g(*a):
            out, pull = jax.vjp(f, *a)
            return pull(jax.tree_util.tree_map(jnp.ones_like, out))

        return g, sig
    if name == "checkpoint":
        return jax.checkpoint(f), sig
    raise ValueError(name)


def _hand() -> dict[str, dict[str, Any]]:
    import jax
    import jax.numpy as jnp
    from jax import lax

    H: dict[str, dict[str, Any]] = {}

    @jax.custom_jvp
    def cj(x):
        return jnp.sin(x)

    @cj.defjvp
    def cj_jvp(primals, tangents):
        (x,), (t,) = primals, tangents
        return cj(x), 3.0 * t * jnp.cos(x) + 1.0  # deliberately not the true derivative

    @jax.custom_vjp
    def cv(x):
        return jnp.tanh(x) * 2.0

    def cv_fwd(x):
        return cv(x), x

    def cv_bwd(res, g):
        return (g * 7.0 + res,)  # deliberately not the true derivative

    cv.defvjp(cv_fwd, cv_bwd)
    X = [((3, 4), np.float32)]
    H["custom_jvp_primal"] = {"fn": lambda x: cj(x) * 2.0, "sig": X}
    H["custom_jvp_grad"] = {"fn": jax.grad(lambda x: jnp.sum(cj(x))), "sig": X}
    H["custom_jvp_jvp"] = {"fn": lambda x: jax.jvp(cj, (x,), (jnp.ones_like(x),))[1], "sig": X}
    H["custom_jvp_vmap"] = {"fn": jax.vmap(lambda r: cj(r) + 1.0), "sig": X}
    H["custom_jvp_in_scan_grad"] = {"fn": jax.grad(lambda x: jnp.sum(lax.scan(lambda c, r: (c + cj(r), c), jnp.zeros((4,)), x)[0])), "sig": X}
    H["custom_vjp_primal"] = {"fn": lambda x: cv(x) + 1.0, "sig": X}
    H["custom_vjp_grad"] = {"fn": jax.grad(lambda x: jnp.sum(cv(x) * x)), "sig": X}
    H["custom_vjp_vmap_grad"] = {"fn": jax.vmap(jax.grad(lambda r: jnp.sum(cv(r)))), "sig": X}
    H["custom_vjp_jit"] = {"fn": jax.jit(lambda x: cv(x) - x), "sig": X}
    H["remat_of_mlp_grad"] = {"fn": jax.grad(lambda x: jnp.sum(jax.checkpoint(lambda v: jnp.tanh(v @ jnp.ones((4, 4)) * 0.1) ** 2)(x))), "sig": X}
    H["grad_of_softmax_ce"] = {"fn": jax.grad(lambda x: -jnp.sum(jax.nn.log_softmax(x) * jax.nn.one_hot(jnp.array([0, 1, 2]), 4))), "sig": X}
    H["hessian_diag"] = {"fn": lambda x: jax.vmap(jax.grad(jax.grad(lambda s: jnp.sin(s) * s)))(x.reshape(-1)), "sig": X}
    H["jacfwd"] = {"fn": jax.jacfwd(lambda v: jnp.tanh(v) * jnp.sum(v)), "sig": [((4,), np.float32)]}
    H["jacrev"] = {"fn": jax.jacrev(lambda v: jnp.tanh(v) * jnp.sum(v)), "sig": [((4,), np.float32)]}
    H["vmap_in_axes_mixed"] = {"fn": jax.vmap(lambda a, b: a @ b + jnp.sum(a), in_axes=(0, None)), "sig": [((3, 4), np.float32), ((4,), np.float32)]}
    H["vmap_out_axes_1"] = {"fn": jax.vmap(lambda r: jnp.stack([r, r * 2]), out_axes=1), "sig": X}
    H["vmap_nested"] = {"fn": jax.vmap(jax.vmap(lambda s: jnp.tanh(s) * 2.0 + jnp.where(s > 0, s, 0.0))), "sig": X}
    H["vmap_of_cond"] = {"fn": jax.vmap(lambda r: lax.cond(jnp.sum(r) > 0, lambda v: v * 2, lambda v: -v, r)), "sig": X}
    H["vmap_of_fori"] = {"fn": jax.vmap(lambda r: lax.fori_loop(0, 3, lambda i, v: v * 1.1 + 0.1, r)), "sig": X}
    H["vmap_of_scan"] = {"fn": jax.vmap(lambda r: lax.scan(lambda c, e: (c + e, c * e), 0.0, r)[1]), "sig": X}
    SQ = [((4, 4), np.float32), ((4, 4), np.float32)]
    for nm, op in {
        "add": jnp.add, "subtract": jnp.subtract, "multiply": jnp.multiply, "divide": lambda p, q: jnp.divide(p, jnp.abs(q) + 1.0), "maximum": jnp.maximum, "minimum": jnp.minimum,
        "power": lambda p, q: jnp.power(jnp.abs(p) + 0.5, q), "where": lambda p, q: jnp.where(p > q, p, -q), "greater": lambda p, q: (p > q).astype(jnp.float32) + (p <= q) * 2.0,
        "atan2": jnp.arctan2, "logaddexp": jnp.logaddexp, "hypot": jnp.hypot, "fmod": lambda p, q: jnp.fmod(p, jnp.abs(q) + 0.5), "lax_add_max": lambda p, q: lax.max(lax.add(p, q), lax.mul(p, q)),
        "matmul_vec": lambda p, q: p @ q, "dot_outer": lambda p, q: jnp.outer(p, q).sum(0), "nextafter_free": lambda p, q: jnp.square(p) - jnp.sqrt(jnp.abs(q)),
    }.items():
        H[f"vmap_mixed_axes_{nm}"] = {"fn": jax.vmap((lambda op: lambda p, q: op(p, q) + jnp.add(p, q) * 0.0)(op), in_axes=(1, 0)), "sig": SQ}
        H[f"vmap_mixed_axes_out1_{nm}"] = {"fn": jax.vmap(op, in_axes=(0, 1), out_axes=1), "sig": SQ}
    H["vmap_mixed_axes_three_operands"] = {"fn": jax.vmap(lambda a, b, c: jnp.where(a > 0, b, c) + a * b - c, in_axes=(1, 0, 1)), "sig": SQ + [((4, 4), np.float32)]}
    H["vmap_mixed_axes_int_bitwise"] = {"fn": jax.vmap(lambda a, b: (a & b) | (a ^ 3), in_axes=(1, 0)), "sig": [((4, 4), np.int32), ((4, 4), np.int32)]}
    @jax.custom_jvp
    def cw(x, y):
        return jnp.maximum(x, y)

    @cw.defjvp
    def cw_jvp(primals, tangents):
        (x, y), (tx, ty) = primals, tangents
        return cw(x, y), jnp.where(x > y, tx, 0.25 * ty)

    @jax.custom_jvp
    def cs(x, y, z):
        return x + y * z

    @cs.defjvp
    def cs_jvp(primals, tangents):
        (x, y, z), (tx, ty, tz) = primals, tangents
        return cs(x, y, z), jnp.select([x > 0.2, x > 0.0], [tx, 2.0 * ty], default=3.0 * tz) + jnp.take(jnp.stack([tx, ty, tz]), jnp.array([2, 0]), axis=0).sum(0) * 0.5

    XY = [((4,), np.float32), ((4,), np.float32)]
    H["custom_jvp_where_grad_both_args"] = {"fn": jax.grad(lambda x, y: jnp.sum(cw(x, y) * jnp.arange(1.0, 5.0)), argnums=(0, 1)), "sig": XY}
    H["custom_jvp_where_vjp_both_args"] = {"fn": lambda x, y: jax.vjp(cw, x, y)[1](jnp.arange(1.0, 5.0)), "sig": XY}
    H["custom_jvp_select_take_grad_three_args"] = {"fn": jax.grad(lambda x, y, z: jnp.sum(cs(x, y, z) * jnp.arange(1.0, 5.0)), argnums=(0, 1, 2)), "sig": XY + [((4,), np.float32)]}
    H["linear_transpose_where_two_operands"] = {"fn": lambda m, ct: jax.linear_transpose(lambda a, b: jnp.where(m > 0, a, 0.25 * b), m, m)(ct), "sig": XY}
    H["linear_transpose_concat_stack"] = {"fn": lambda m, ct: jax.linear_transpose(lambda a, b: jnp.concatenate([a * 2.0, b, a - b]), m, m)(jnp.concatenate([ct, ct * 2, ct * 3])), "sig": XY}
    H["grad_wrt_two_args_through_where_select"] = {"fn": jax.grad(lambda x, y: jnp.sum(jnp.where(x > y, x * y, jnp.select([y > 0], [x], default=y)) ** 2), argnums=(0, 1)), "sig": XY}
    H["grad_wrt_two_args_matmul_take"] = {"fn": jax.grad(lambda a, b: jnp.sum(jnp.take(a @ b, jnp.array([1, 0]), axis=0) ** 2), argnums=(0, 1)), "sig": [((3, 4), np.float32), ((4, 2), np.float32)]}
    H["grad_through_where_and_clip"] = {"fn": jax.grad(lambda x: jnp.sum(jnp.clip(jnp.where(x > 0, x * x, -x), 0.01, 0.3))), "sig": X}
    H["grad_through_concat_reshape"] = {"fn": jax.grad(lambda x: jnp.sum(jnp.concatenate([x, x * 2], 0).reshape(-1)[::2] ** 2)), "sig": X}
    H["grad_through_take_cumsum"] = {"fn": jax.grad(lambda x: jnp.sum(jnp.cumsum(jnp.take(x, jnp.array([2, 0]), axis=1), axis=0) ** 2)), "sig": X}
    H["jvp_through_matmul_softmax"] = {"fn": lambda x: jax.jvp(lambda v: jax.nn.softmax(v @ jnp.ones((4, 4)) * 0.2), (x,), (jnp.ones_like(x),))[1], "sig": X}
    # static parameters handed over as NumPy / JAX scalars instead of Python numbers: the differentiation
    # and batching rules of the substitutes must read them exactly as the lowering does
    acts = {
        "leaky_relu": lambda v, p: jax.nn.leaky_relu(v, negative_slope=p), "elu": lambda v, p: jax.nn.elu(v, alpha=p), "celu": lambda v, p: jax.nn.celu(v, alpha=p),
        "clip": lambda v, p: jnp.clip(v, -p, p), "pow": lambda v, p: jnp.abs(v) ** p, "softplus_scaled": lambda v, p: jax.nn.softplus(v * p), "hard_tanh_scaled": lambda v, p: jax.nn.hard_tanh(v) * p,
        "logsumexp_b": lambda v, p: jax.nn.logsumexp(v, axis=1, b=p), "integer_pow": lambda v, p: lax.integer_pow(v, int(p) + 2),
    }
    for an, af in acts.items():
        for pn, pv in (("np32", np.float32(0.3)), ("np64", np.float64(0.3)), ("jnp32", "jnp"), ("np0d", np.array(0.3, np.float32))):
            mk = (lambda af, pv: (lambda v: af(v, jnp.float32(0.3) if isinstance(pv, str) else pv)))(af, pv)
            H[f"param_{an}_{pn}_grad"] = {"fn": jax.grad((lambda mk: lambda x: jnp.sum(mk(x) * jnp.cos(x)))(mk)), "sig": X}
            if pn in ("np32", "jnp32"):
                H[f"param_{an}_{pn}_jvp"] = {"fn": (lambda mk: lambda x: jax.jvp(mk, (x,), (jnp.ones_like(x) * 0.5,))[1])(mk), "sig": X}
            if pn == "np32":  # (a jax.Array as a static parameter is unhashable under vmap: JAX itself refuses it, loudly)
                H[f"param_{an}_{pn}_vmap"] = {"fn": (lambda mk: lambda x: jax.vmap(lambda r: mk(r[None, :])[0])(x))(mk), "sig": X}
    # every activation substitute carries a hand-written differentiation rule: derivative vs JAX's own
    unary_acts = {
        "gelu_tanh": lambda v: jax.nn.gelu(v), "gelu_tanh_explicit": lambda v: jax.nn.gelu(v, approximate=True), "gelu_erf": lambda v: jax.nn.gelu(v, approximate=False),
        "silu": jax.nn.silu, "softplus": jax.nn.softplus, "sigmoid": jax.nn.sigmoid, "tanh": jnp.tanh, "elu": jax.nn.elu, "selu": jax.nn.selu, "celu": jax.nn.celu,
        "leaky_relu": jax.nn.leaky_relu, "relu6": lambda v: jax.nn.relu6(v * 3.0), "hard_tanh": lambda v: jax.nn.hard_tanh(v * 1.3), "hard_sigmoid": jax.nn.hard_sigmoid,
        "hard_swish": jax.nn.hard_swish, "mish": jax.nn.mish, "soft_sign": jax.nn.soft_sign, "log_sigmoid": jax.nn.log_sigmoid, "softmax": lambda v: jax.nn.softmax(v, axis=1),
        "log_softmax": lambda v: jax.nn.log_softmax(v, axis=0), "logsumexp": lambda v: jax.nn.logsumexp(v, axis=1), "standardize": lambda v: jax.nn.standardize(v, axis=1), "glu": lambda v: jax.nn.glu(v, axis=1),
        "erf": jax.scipy.special.erf, "expm1_log1p": lambda v: jnp.expm1(v) + jnp.log1p(jnp.abs(v)), "sin_cos": lambda v: jnp.sin(v) * jnp.cos(v * 2.0), "sqrt_abs": lambda v: jnp.sqrt(jnp.abs(v) + 0.5),
        "clip": lambda v: jnp.clip(v, -0.7, 0.9), "abs_sign": lambda v: jnp.abs(v) * 1.5 + jnp.sign(v), "square_cube": lambda v: jnp.square(v) + v ** 3, "reciprocal": lambda v: 1.0 / (jnp.abs(v) + 0.5),
    }
    for an, af in unary_acts.items():
        H[f"deriv_{an}_grad"] = {"fn": jax.grad((lambda af: lambda x: jnp.sum(af(x * 1.5) * jnp.cos(x)))(af)), "sig": X}
        H[f"deriv_{an}_jvp"] = {"fn": (lambda af: lambda x: jax.jvp(lambda v: af(v * 1.5), (x,), (jnp.ones_like(x) * 0.5,))[1])(af), "sig": X}
        H[f"deriv_{an}_vjp_of_jit"] = {"fn": (lambda af: lambda x: jax.vjp(jax.jit(lambda v: af(v * 1.5) * 2.0), x)[1](jnp.ones_like(af(x * 1.5)) * 0.5)[0])(af), "sig": X}
    return H


def enumerate_cases(tier: str, seed: int) -> list[dict[str, Any]]:
    cases: list[dict[str, Any]] = []
    for name in _hand():
        cases.append({"key": f"hand:{name}", "src": "hand", "name": name, "cost": 1.0})
    per: dict[str, int] = {}
    for tp in registry.corpus():
        if tp["_dp"] or registry.is_heavy(tp) or registry.input_kind(tp) != "shapes" or not registry.numeric_ok(tp):
            continue
        if tp.get("input_params") or tp.get("inputs_as_nchw") or tp.get("outputs_as_nchw"):
            continue
        dts = tp.get("input_dtypes")
        if dts and not all(np.issubdtype(np.dtype(d), np.floating) for d in dts):
            continue
        if not tp.get("input_shapes"):
            continue
        fam = tp["_family"]
        lim = 1 if tier == "quick" else 3
        if per.get(fam, 0) >= lim:
            continue
        per[fam] = per.get(fam, 0) + 1
        if tier == "quick":
            h = stable_hash(tp["_pid"]) + seed
            rest = [t for t in TRANSFORMS if t not in QUICK_ALWAYS]
            ts = QUICK_ALWAYS + [rest[h % len(rest)]]
        else:
            ts = list(TRANSFORMS)
        cases.append({"key": f"reg:{tp['_pid']}", "src": "registry", "pid": tp["_pid"], "transforms": ts, "cost": float(len(ts))})
    return recs.only_filter(cases)


def _judge(fn, sig, rng, rec, fam, label, base_exports: bool) -> str:
    import jax
    from jax2onnx.user_interface import to_onnx

    feeds = [vin.draw(sig, fc, "benign", rng) for fc in ("benign", "uniform")]
    refs = []
    for xs in feeds:
        try:
            refs.append(registry.eval_jax(fn, xs, {}, False))
        except Exception as exc:  # noqa: BLE001
            return "not_defined_in_jax"
    if any(np.asarray(l).dtype.kind == "V" for r in refs for l in r):
        return "not_applicable(float0 result has no ONNX representation)"
    try:
        jax.make_jaxpr(fn)(*[jax.ShapeDtypeStruct(s, dt) for s, dt in sig])
    except Exception:  # noqa: BLE001
        return "not_traceable_in_jax"
    specs = [jax.ShapeDtypeStruct(s, dt) for s, dt in sig]
    try:
        model = to_onnx(fn, specs)
    except NotImplementedError as exc:
        rec["obs"]["explicitly_rejected"] = rec["obs"].get("explicitly_rejected", 0) + 1
        return "rejected"
    except Exception as exc:  # noqa: BLE001
        msg = f"{type(exc).__name__}: {str(exc)[:160]}"
        import re as _re

        if isinstance(exc, (ValueError, TypeError)) and _re.search(r"(not supported|unsupported|only supports|expected \d+ dims|expects? rank|does not support|cannot be exported)", str(exc), _re.I):
            rec["obs"]["explicitly_rejected"] = rec["obs"].get("explicitly_rejected", 0) + 1
            return "rejected"
        if base_exports:
            rec["violations"].append({"family": fam, "kind": "internal_error", "cls": label, "text": f"{fam} under {label}: f alone exports and JAX traces T(f), but exporting T(f) fails with an internal exception: {msg}"})
        return "internal_error"
    if registry.randomness(model) != "no":
        return "random"
    try:
        sess = ortrun.session(model)
    except ortrun.OrtEnvLimit:
        return "env_limit"
    except ortrun.OrtLoadError as exc:
        rec["violations"].append({"family": fam, "kind": "invalid_model", "cls": label, "text": f"{fam} under {label}: ORT refuses the model: {str(exc)[:200]}"})
        return "invalid"
    for xs, ref in zip(feeds, refs):
        try:
            got = ortrun.run(sess, ortrun.build_feed(sess, xs))
        except ortrun.OrtEnvLimit:
            return "env_limit"
        except ortrun.OrtRunError as exc:
            rec["violations"].append({"family": fam, "kind": "ort_error", "cls": label, "text": f"{fam} under {label}: ORT raises {str(exc)[:200]}"})
            return "ort_error"
        lazy = oracle.make_lazy(lambda: fn, xs, {}, False, rng, registry.eval_jax)
        c = oracle.compare(ref, got, lazy=lazy, abs_floor_mult=64.0)
        rec["evals"] += 1
        if not c.ok and not c.unstable_only:
            rec["violations"].append({"family": fam, "kind": "transformed_export_differs:" + (c.kind or "value"), "cls": label, "text": f"{fam} under {label}: {c.text}"})
            return "differs"
    return "agrees"


def run_case(case: dict[str, Any], tier: str, seed: int) -> dict[str, Any]:
    rec: dict[str, Any] = {"evals": 0, "nontrivial": [], "violations": [], "obs": {}}
    rng = np.random.default_rng([seed, stable_hash(case["key"]) % 2**31])
    if case["src"] == "hand":
        spec = _hand()[case["name"]]
        out = _judge(spec["fn"], [(tuple(s), np.dtype(dt)) for s, dt in spec["sig"]], rng, rec, f"hand/{case['name']}", case["name"], True)
        rec["obs"]["outcome:" + out] = 1
        if out in ("agrees", "rejected"):
            rec["nontrivial"].append(f"{case['name']}|{out}")
        rec["status"] = "violated" if rec["violations"] else "held"
        rec["sample"] = {"program": case["name"], "outcome": out}
        return rec
    tp = registry.by_pid(case["pid"])
    prog = programs.from_registry(tp)
    sig = prog.signature({s: 3 for s in prog.symbols})
    # does f alone export?
    try:
        prog.export(inputs=[__import__("jax").ShapeDtypeStruct(s, dt) for s, dt in sig])
        base_ok = True
    except Exception:  # noqa: BLE001
        base_ok = False
    outcomes = {}
    for t in case["transforms"]:
        f = registry.instantiate(tp)  # fresh callable per transformation
        try:
            tr = _transform(t, f, len(sig), sig)
        except Exception:  # noqa: BLE001
            tr = None
        if tr is None:
            outcomes[t] = "not_applicable"
            continue
        tf, tsig = tr
        out = _judge(tf, tsig, rng, rec, prog.family, t, base_ok)
        outcomes[t] = out
        rec["obs"]["outcome:" + out] = rec["obs"].get("outcome:" + out, 0) + 1
        if out in ("agrees", "rejected"):
            rec["nontrivial"].append(f"{prog.pid}|{t}|{out}")
    rec["status"] = "violated" if rec["violations"] else "held"
    rec["sample"] = {"program": prog.pid, "outcomes": outcomes}
    return rec
