"""C16 — failure is loud: never a silently different or partial model."""

from __future__ import annotations

import os
from typing import Any

import numpy as np

from vlib import artefact, interpose, oracle, ortrun, programs, recs, registry
from vlib.substrate import stable_hash

# ----------------------------------------------------------------------------
# (a) unsupported zoo
# ----------------------------------------------------------------------------


def _fresh_prim(name: str):
    import jax
    from jax.extend.core import Primitive
    from jax.interpreters import mlir

    p = Primitive(name)
    p.def_impl(lambda x: x * 2.0 + 1.0)
    p.def_abstract_eval(lambda x: x)
    mlir.register_lowering(p, mlir.lower_fun(lambda x: x * 2.0 + 1.0, multiple_results=False))
    return p


def _zoo() -> dict[str, Any]:
    import jax
    import jax.numpy as jnp
    from jax import lax

    p = _fresh_prim("c16_unregistered")
    Z: dict[str, Any] = {}
    Z["unregistered_prim@top"] = lambda x: p.bind(x) + 1
    Z["unregistered_prim@fori_body"] = lambda x: lax.fori_loop(0, 3, lambda i, v: p.bind(v) * 0.5, x)
    Z["unregistered_prim@while_body"] = lambda x: lax.while_loop(lambda s: s[0] < 3, lambda s: (s[0] + 1, p.bind(s[1]) * 0.5), (0, x))[1]
    Z["unregistered_prim@scan_body"] = lambda x: lax.scan(lambda c, _: (p.bind(c) * 0.5, c), x, None, length=3)[0]
    Z["unregistered_prim@cond_branch"] = lambda x: lax.cond(jnp.sum(x) > 0, lambda v: p.bind(v), lambda v: v - 1, x)
    Z["unregistered_prim@nested_cond_in_fori"] = lambda x: lax.fori_loop(0, 2, lambda i, v: lax.cond(i > 0, lambda u: p.bind(u) * 0.5, lambda u: u + 1, v), x)
    Z["switch_3way"] = lambda x, i: lax.switch(i, [lambda v: v + 1, lambda v: v * 2, lambda v: v - 3], x)
    Z["switch_4way_in_fori"] = lambda x, i: lax.fori_loop(0, 2, lambda k, v: lax.switch(i, [lambda u: u + 1, lambda u: u * 2, lambda u: u - 3, lambda u: -u], v), x)
    Z["scan_reverse"] = lambda x: lax.scan(lambda c, r: (c + r, c * r), jnp.zeros((3,), x.dtype), jnp.stack([x, x * 2, x * 3]), reverse=True)
    Z["scan_reverse_in_cond"] = lambda x: lax.cond(jnp.sum(x) > 0, lambda v: lax.scan(lambda c, r: (c + r, c * r), jnp.zeros((3,), v.dtype), jnp.stack([v, v * 2]), reverse=True)[1][0], lambda v: v, x)
    Z["scan_reverse_no_xs_carry_only"] = lambda x: lax.scan(lambda c, _: (c * 0.5 + 1.0, None), x, None, length=4, reverse=True)[0]
    Z["scan_reverse_no_xs_stacked_ys"] = lambda x: lax.scan(lambda c, _: (c * 0.5 + 1.0, c * 2.0), x, None, length=4, reverse=True)[1]
    Z["scan_reverse_no_xs_stacked_ys_in_fori"] = lambda x: lax.fori_loop(0, 2, lambda i, v: v + lax.scan(lambda c, _: (c * 0.5 + 1.0, c), v, None, length=3, reverse=True)[1].sum(0) * jnp.array([1.0, 2.0, 3.0]), x)
    Z["scan_reverse_int_counter"] = lambda x: lax.scan(lambda c, _: (c + 1, c.astype(jnp.float32) * x), jnp.int32(0), None, length=3, reverse=True)[1]
    Z["cumsum_reverse_axis1"] = lambda x: lax.cumsum(jnp.stack([x, x * 2.0]), axis=1, reverse=True)
    Z["cummax_reverse"] = lambda x: lax.cummax(x * jnp.array([1.0, -1.0, 0.5]), axis=0, reverse=True)
    Z["associative_scan_reverse"] = lambda x: lax.associative_scan(jnp.add, x, reverse=True)
    Z["fori_traced_bounds"] = lambda x, n: lax.fori_loop(0, n, lambda i, v: v * 1.5 + 1, x)
    Z["fori_traced_lower"] = lambda x, n: lax.fori_loop(n, 4, lambda i, v: v * 1.5 + 1, x)
    Z["while_with_unregistered_in_cond_fn"] = lambda x: lax.while_loop(lambda s: jnp.sum(p.bind(s)) < 50.0, lambda s: s * 2 + 1, jnp.abs(x) + 1)
    Z["scan_unroll"] = lambda x: lax.scan(lambda c, r: (c + r, c * r), jnp.zeros((3,), x.dtype), jnp.stack([x, x * 2, x * 3, x * 4]), unroll=2)
    Z["cumsum_reverse"] = lambda x: lax.cumsum(x, axis=0, reverse=True)
    Z["sort_descending_multi"] = lambda x: lax.sort((x, -x), num_keys=2)[1]
    Z["reduce_window_custom"] = lambda x: lax.reduce_window(x, -jnp.inf, lax.max, (2,), (1,), "VALID")
    # supported primitive, unsupported *parameter value*: either refused or computed like JAX
    Z["reduce_max_init_posinf"] = lambda x: lax.reduce(x, jnp.float32(jnp.inf), lambda a, b: jnp.maximum(a, b), (0,))
    Z["reduce_min_init_neginf"] = lambda x: lax.reduce(x, jnp.float32(-jnp.inf), lambda a, b: jnp.minimum(a, b), (0,))
    Z["reduce_max_init_neginf_identity"] = lambda x: lax.reduce(x, jnp.float32(-jnp.inf), lambda a, b: jnp.maximum(a, b), (0,))
    Z["reduce_max_init_finite"] = lambda x: lax.reduce(x, jnp.float32(1.2), lambda a, b: jnp.maximum(a, b), (0,))
    Z["reduce_min_init_finite"] = lambda x: lax.reduce(x, jnp.float32(0.7), lambda a, b: jnp.minimum(a, b), (0,))
    Z["reduce_add_init_nonzero"] = lambda x: lax.reduce(x, jnp.float32(2.5), lambda a, b: a + b, (0,))
    Z["reduce_mul_init_two"] = lambda x: lax.reduce(x, jnp.float32(2.0), lambda a, b: a * b, (0,))
    Z["reduce_window_max_init_posinf"] = lambda x: lax.reduce_window(x, jnp.inf, lax.max, (2,), (1,), "VALID")
    Z["reduce_window_min_init_neginf"] = lambda x: lax.reduce_window(x, -jnp.inf, lax.min, (2,), (1,), "VALID")
    Z["reduce_window_add_init_nonzero"] = lambda x: lax.reduce_window(x, 0.5, lax.add, (2,), (1,), "VALID")
    Z["reduce_window_max_init_finite"] = lambda x: lax.reduce_window(x, 1.2, lax.max, (2,), (1,), "SAME")
    Z["cumsum_reverse_and_exclusive_like"] = lambda x: lax.cumsum(x, axis=0, reverse=True) - x
    Z["pad_negative_low"] = lambda x: lax.pad(x, 0.5, [(-1, 2, 0)])
    Z["pad_interior"] = lambda x: lax.pad(x, 0.5, [(0, 0, 1)])
    Z["clamp_min_above_max"] = lambda x: lax.clamp(1.2, x, 0.8)
    Z["integer_pow_negative"] = lambda x: lax.integer_pow(x, -2)
    Z["top_k_all"] = lambda x: lax.top_k(x, 3)[1].astype(jnp.float32) + lax.top_k(x, 3)[0]
    Z["argsort_descending_stable_ties"] = lambda x: jnp.argsort(jnp.round(x), descending=True, stable=True).astype(jnp.float32)
    Z["round_to_nearest_even_flag"] = lambda x: lax.round(x * 3.0, lax.RoundingMethod.TO_NEAREST_EVEN) + lax.round(x * 3.0, lax.RoundingMethod.AWAY_FROM_ZERO)
    Z["dynamic_update_oob"] = lambda x: lax.dynamic_update_slice(x, jnp.ones((2,), x.dtype), (2,))
    return Z


_INT_ARG = {"switch_3way": [0, 1, 2, -1, 5], "switch_4way_in_fori": [0, 3, 7], "fori_traced_bounds": [0, 1, 3], "fori_traced_lower": [0, 2, 4, 6]}

# ----------------------------------------------------------------------------
# (b) programs for pass-fault enumeration
# ----------------------------------------------------------------------------

_REG_FAMILIES = [
    "examples.nnx/CNN", "primitives.nnx/conv", "primitives.nnx/dropout", "examples.onnx_functions/onnx_functions_000", "primitives.jnp/reshape",
    "primitives.lax/convert_element_type", "primitives.nnx/batch_norm", "primitives.nnx/layer_norm", "primitives.jnp/transpose", "primitives.nn/silu",
    "examples.nnx/ResBlock", "primitives.nnx/avg_pool", "primitives.linen/conv", "examples.nnx/MLP", "primitives.jnp/squeeze", "primitives.nnx/linear_general",
    "examples.eqx/MlpExample", "primitives.lax/while_loop", "primitives.lax/scan", "primitives.lax/cond", "examples.onnx_functions/onnx_functions_002",
]


def _fault_programs(tier: str) -> list[dict[str, Any]]:
    out: list[dict[str, Any]] = []
    seen: dict[str, int] = {}
    limit = 1 if tier == "quick" else 6
    fams = _REG_FAMILIES if tier == "thorough" else _REG_FAMILIES[:9]
    for tp in registry.corpus():
        if tp["_dp"] or registry.is_heavy(tp) or not registry.numeric_ok(tp):
            continue
        if tp["_family"] in fams and seen.get(tp["_family"], 0) < limit:
            seen[tp["_family"]] = seen.get(tp["_family"], 0) + 1
            out.append({"kind": "registry", "pid": tp["_pid"]})
    for name in ("conv_relu", "reduce_mean_hw_keepdims", "add_forest", "user_transpose_roundtrip", "residual_add"):
        out.append({"kind": "nhwc", "name": name})
    for i, name in enumerate(_hand_programs()):
        for opset in (_HAND_OPSETS if tier == "thorough" or name.startswith("mul_sigmoid") else (_HAND_OPSETS[i % 3],)):
            out.append({"kind": "hand", "name": name, "opset": opset})
    return out


def enumerate_cases(tier: str, seed: int) -> list[dict[str, Any]]:
    cases: list[dict[str, Any]] = []
    for name in _zoo():
        cases.append({"key": f"zoo:{name}", "src": "zoo", "name": name, "cost": 1.0})
    for name in ("unregistered_prim@function_body", "lowering_leaves_output_unbound", "lowering_binds_disconnected_value", "lowering_raises@function_body", "lowering_raises@loop_body"):
        cases.append({"key": f"zoo:{name}", "src": "zoo_special", "name": name, "cost": 1.0})
    n_pass = len(interpose.pass_names())
    for pi, prog in enumerate(_fault_programs(tier)):
        pid = prog.get("pid") or (f"hand/{prog['name']}@opset{prog['opset']}" if prog["kind"] == "hand" else f"nhwc/{prog['name']}")
        for k in range(n_pass):
            for when in ("before", "after"):
                modes = ["default"] if (tier == "quick" and (k + pi) % 3) else ["default", "strict_env", "strict_arg"]
                for mode in modes:
                    cases.append({"key": f"fault:{pid}|k={k}|{when}|{mode}", "src": "fault", "prog": prog, "k": k, "when": when, "mode": mode, "cost": 1.0})
        cases.append({"key": f"fault:{pid}|function_scope", "src": "fault_fn", "prog": prog, "cost": 2.0})
    return recs.only_filter(cases)


# ----------------------------------------------------------------------------


def _zoo_case(case: dict[str, Any], seed: int) -> dict[str, Any]:
    import jax
    from jax2onnx.user_interface import to_onnx

    rec: dict[str, Any] = {"evals": 0, "nontrivial": [], "violations": [], "obs": {}}
    name = case["name"]
    rng = np.random.default_rng([seed, stable_hash(case["key"]) % 2**31])
    if case["src"] == "zoo":
        fn = _zoo()[name]
        two = name in _INT_ARG
        specs = [jax.ShapeDtypeStruct((3,), np.float32)] + ([jax.ShapeDtypeStruct((), np.int32)] if two else [])
        feeds = [[rng.uniform(0.5, 1.5, 3).astype(np.float32)] + ([np.int32(v)] if two else []) for v in (_INT_ARG.get(name) or [None, None])]
        ctx = None
    else:
        fn, specs, feeds, ctx = _special(name, rng)
    try:
        if ctx is not None:
            with ctx:
                model = to_onnx(fn, specs)
        else:
            model = to_onnx(fn, specs)
    except Exception as exc:  # noqa: BLE001
        rec["evals"] = 1
        rec["nontrivial"].append(case["key"] + "|raised")
        rec["obs"]["unsupported_construct_rejected"] = 1
        rec["obs"]["rejected_with_" + ("NotImplementedError" if isinstance(exc, NotImplementedError) else type(exc).__name__)] = 1
        rec["status"] = "held"
        rec["sample"] = {"construct": name, "outcome": f"raised {type(exc).__name__}: {str(exc)[:120]}"}
        return rec
    # it exported: then it must be a valid model that agrees with JAX ("supported after all")
    rec["evals"] = 1
    rec["obs"]["construct_exported_anyway"] = 1
    problems, _ = artefact.validity_problems(model)
    for p in problems:
        rec["violations"].append({"family": f"zoo/{name}", "kind": "silent_invalid_model:" + p["kind"], "cls": name, "text": f"{name}: to_onnx returned an invalid model: {p['text'][:250]}"})
    if not problems:
        try:
            sess = ortrun.session(model)
            for xs in feeds:
                ref = registry.eval_jax(fn, xs, {}, False)
                got = ortrun.run(sess, ortrun.build_feed(sess, xs))
                c = oracle.compare(ref, got)
                if c.ok:
                    # the numeric oracle masks non-finite reference elements (overflow is a kernel matter there);
                    # in these small semantic programs an exact +-inf of JAX must come out as the same infinity
                    for k, (r_, g_) in enumerate(zip(ref, got)):
                        r_, g_ = np.asarray(r_), np.asarray(g_)
                        if r_.dtype.kind == "f" and r_.shape == g_.shape and np.any(np.isinf(r_) & (g_.astype(np.float64) != r_.astype(np.float64))):
                            c = oracle.Cmp(False, "nonfinite", f"output {k}: JAX gives {r_.reshape(-1)[:4].tolist()}, the model {g_.reshape(-1)[:4].tolist()}")
                            break
                if not c.ok and not c.unstable_only:
                    rec["violations"].append({"family": f"zoo/{name}", "kind": "silent_different_model", "cls": name, "text": f"{name}: exported without error but differs from JAX on {[np.asarray(x).tolist() for x in xs]}: {c.text}"})
                    break
            else:
                rec["nontrivial"].append(case["key"] + "|supported")
        except ortrun.OrtEnvLimit:
            rec["obs"]["ort_env_limit"] = 1
        except (ortrun.OrtRunError, ortrun.OrtLoadError) as exc:
            rec["violations"].append({"family": f"zoo/{name}", "kind": "silent_invalid_model:ort", "cls": name, "text": f"{name}: exported model fails in ORT: {str(exc)[:250]}"})
    rec["status"] = "violated" if rec["violations"] else "held"
    rec["sample"] = {"construct": name, "outcome": "exported", "nodes": [n.op_type for n in model.graph.node][:8]}
    return rec


def _special(name: str, rng):
    """Constructs that need a module-level function or a sabotaged plugin."""
    import contextlib

    import jax
    import jax.numpy as jnp
    from jax import lax
    from jax2onnx.plugins.plugin_system import PLUGIN_REGISTRY

    specs = [jax.ShapeDtypeStruct((3,), np.float32)]
    feeds = [[rng.uniform(0.5, 1.5, 3).astype(np.float32)] for _ in range(2)]
    if name == "unregistered_prim@function_body":
        from vlib import fnmods

        return fnmods.c16_outer_with_unregistered, specs, feeds, None

    @contextlib.contextmanager
    def sabotage(prim: str, mode: str):
        plugin = PLUGIN_REGISTRY[prim]
        orig = plugin.lower

        def lower(ctx, eqn, *a, **k):
            if mode == "unbound":
                return None
            if mode == "raise":
                raise RuntimeError("plugin lowering fails")
            # bind a value that nothing produces
            import onnx_ir as ir

            out_var = eqn.outvars[0]
            v = ir.Value(name=ctx.fresh_name("floating"), type=ir.TensorType(ir.DataType.FLOAT), shape=ir.Shape(tuple(out_var.aval.shape)))
            ctx.bind_value_for_var(out_var, v)
            return None

        plugin.lower = lower
        try:
            yield
        finally:
            try:
                del plugin.lower
            except AttributeError:
                plugin.lower = orig

    if name == "lowering_leaves_output_unbound":
        return (lambda x: lax.tanh(x) + 1), specs, feeds, sabotage("tanh", "unbound")
    if name == "lowering_binds_disconnected_value":
        return (lambda x: lax.tanh(x) + 1), specs, feeds, sabotage("tanh", "disconnected")
    if name == "lowering_raises@loop_body":
        return (lambda x: lax.fori_loop(0, 3, lambda i, v: lax.tanh(v) * 0.5, x)), specs, feeds, sabotage("tanh", "raise")
    if name == "lowering_raises@function_body":
        from vlib import fnmods

        return fnmods.c16_outer_tanh, specs, feeds, sabotage("tanh", "raise")
    raise ValueError(name)


def _hand_programs() -> dict[str, Any]:
    """Small programs in which a rewriting pass is active and its result is directly a graph output,
    so that a state only a *later* pass completes is visible when the pipeline stops in between."""
    import jax
    import jax.numpy as jnp
    from jax import lax

    H: dict[str, Any] = {}
    H["mul_sigmoid_is_output"] = (lambda x: x * jax.nn.sigmoid(x), [(2, 3)])
    H["mul_sigmoid_and_more"] = (lambda x: (jax.nn.sigmoid(x) * x, jnp.tanh(x) + 1.0), [(2, 3)])
    H["mul_sigmoid_symbolic"] = (lambda x: x * jax.nn.sigmoid(x), [("B", 3)])
    H["mul_rsqrt_is_output"] = (lambda x, y: x * lax.rsqrt(jnp.abs(y) + 1.0), [(2, 3), (2, 3)])
    H["div_sqrt_is_output"] = (lambda x, y: x / jnp.sqrt(jnp.abs(y) + 1.0), [(2, 3), (2, 3)])
    H["cast_roundtrip_is_output"] = (lambda x: x.astype(jnp.float16).astype(jnp.float32), [(2, 3)])
    H["reshape_pair_is_output"] = (lambda x: x.reshape(3, 2).reshape(6), [(2, 3)])
    H["reshape_symbolic_is_output"] = (lambda x: x.reshape(x.shape[0], -1).reshape(x.shape[0], 3, 2), [("B", 2, 3)])
    H["transpose_pair_is_output"] = (lambda x: jnp.transpose(jnp.transpose(jnp.tanh(x), (1, 0, 2)), (2, 1, 0)), [(2, 3, 4)])
    H["transpose_reduce_is_output"] = (lambda x: jnp.mean(jnp.transpose(x, (0, 2, 1)), axis=1, keepdims=True), [(2, 3, 4)])
    H["identity_reshape_is_output"] = (lambda x: jnp.tanh(x).reshape(2, 3), [(2, 3)])
    H["arange_cast_is_output"] = (lambda x: x + jnp.arange(3).astype(jnp.float32), [(2, 3)])
    H["not_not_where"] = (lambda x: jnp.where(~(~(x > 0)), x, 0.0), [(2, 3)])
    H["dead_branch"] = (lambda x: (lambda _unused: jnp.tanh(x))(jnp.exp(x) @ jnp.ones((3, 4), x.dtype)), [(2, 3)])
    H["cond_with_mul_sigmoid"] = (lambda x: lax.cond(jnp.sum(x) > 0, lambda v: v * jax.nn.sigmoid(v), lambda v: -v, x), [(2, 3)])
    return H


_HAND_OPSETS = (23, 24, 25)


def _build_prog(spec: dict[str, Any]) -> programs.Program:
    if spec["kind"] == "hand":
        fn, shapes = _hand_programs()[spec["name"]]
        return programs.Program(
            pid=f"hand/{spec['name']}@opset{spec['opset']}", family=f"hand/{spec['name']}", make_fn=lambda: fn, specs=lambda: [tuple(sh) for sh in shapes],
            signature=lambda b: [(tuple((b.get(d, 2) if isinstance(d, str) else d) for d in sh), np.dtype(np.float32)) for sh in shapes],
            kwargs={"opset": spec["opset"]}, source="hand",
        )
    if spec["kind"] == "registry":
        return programs.from_registry(registry.by_pid(spec["pid"]))
    from checks import c12

    s = c12._nhwc_programs()[spec["name"]]
    shapes = s["shapes"]
    n4 = [i for i, sh in enumerate(shapes) if len(sh) == 4]
    return programs.Program(
        pid=f"nhwc/{spec['name']}",
        family=f"nhwc/{spec['name']}",
        make_fn=lambda: s["fn"],
        specs=lambda: [tuple(sh) for sh in shapes],
        signature=lambda b: c12._sig_of(shapes, b, np.float32),
        kwargs={"inputs_as_nchw": n4[:1], "outputs_as_nchw": [0]},
        source="nhwc",
    )


def _export_with_policy(prog: programs.Program, mode: str):
    """default: public API; strict_env: env var; strict_arg: implementation-level argument."""
    if mode != "strict_arg":
        return prog.export()
    from jax2onnx.converter import conversion_api as capi
    from jax2onnx.user_interface import _normalize_input_specs

    import onnx_ir as ir

    kw = dict(prog.kwargs)
    specs = _normalize_input_specs(prog.specs()) if prog.specs() else []
    with registry.x64(prog.dp):
        m = capi.to_onnx(
            fn=prog.make_fn(), inputs=specs, input_params=dict(prog.params), model_name="m", opset=kw.get("opset", 23), enable_double_precision=prog.dp,
            record_primitive_calls_file=None, protective_clone=False, inputs_as_nchw=kw.get("inputs_as_nchw"), outputs_as_nchw=kw.get("outputs_as_nchw"),
            input_names=None, output_names=None, strict_optimizer_failures=True,
        )
    return ir.to_proto(m)


def _fault_case(case: dict[str, Any], seed: int) -> dict[str, Any]:
    rec: dict[str, Any] = {"evals": 0, "nontrivial": [], "violations": [], "obs": {}}
    prog = _build_prog(case["prog"])
    names = interpose.pass_names()
    if case["src"] == "fault_fn":
        # fault inside the function-body pipeline at every pass index (default policy)
        n_raised = 0
        for k in range(len(names)):
            with interpose.pass_monitor(snapshot=False, fault=(k, "after"), fault_scope="function") as mon:
                try:
                    model = prog.export()
                except Exception as exc:  # noqa: BLE001
                    rec["violations"].append({"family": "optimizer_fault/function_scope", "kind": "default_policy_raises", "cls": names[k], "text": f"{prog.pid}: fault after function-body pass {names[k]} escaped under the default policy: {type(exc).__name__}"})
                    continue
            if mon.faults_raised == 0:
                continue
            n_raised += 1
            _judge_model(prog, model, rec, f"function:{names[k]}", seed)
        rec["obs"]["function_scope_faults_raised"] = n_raised
        rec["status"] = "violated" if rec["violations"] else ("held" if n_raised else "skipped")
        if not n_raised:
            rec["reason"] = "program_has_no_function_body"
        rec["sample"] = {"program": prog.pid, "function_scope_fault_points": n_raised}
        return rec
    k, when, mode = case["k"], case["when"], case["mode"]
    env_key = "JAX2ONNX_STRICT_OPTIMIZER_FAILURES"
    old_env = os.environ.get(env_key)
    if mode == "strict_env":
        os.environ[env_key] = "1"
    else:
        os.environ.pop(env_key, None)
    raised = None
    model = None
    try:
        with interpose.pass_monitor(snapshot=False, fault=(k, when)) as mon:
            try:
                model = _export_with_policy(prog, mode)
            except interpose.InjectedFault as exc:
                raised = exc
            except Exception as exc:  # noqa: BLE001
                raised = exc
    finally:
        if old_env is None:
            os.environ.pop(env_key, None)
        else:
            os.environ[env_key] = old_env
    if mon.faults_raised == 0:
        return {"status": "inconclusive", "reason": "fault_point_not_reached", "detail": f"pass {k} never ran"}
    rec["evals"] = 1
    rec["obs"]["faults_raised"] = 1
    cls = f"{names[k]}:{when}"
    if mode == "default":
        if raised is not None:
            rec["violations"].append({"family": "optimizer_fault/default", "program": prog.pid, "kind": "default_policy_raises", "cls": cls, "text": f"{prog.pid}: fault {when} pass {k} ({names[k]}) escaped under the default policy: {type(raised).__name__}: {str(raised)[:150]}"})
        else:
            _judge_model(prog, model, rec, cls, seed)
            if not rec["violations"]:
                rec["nontrivial"].append(f"{prog.pid}|{k}|{when}|default")
    else:
        if not isinstance(raised, interpose.InjectedFault):
            rec["violations"].append({"family": f"optimizer_fault/{mode}", "program": prog.pid, "kind": "strict_policy_does_not_reraise", "cls": cls, "text": f"{prog.pid}: strict setting ({mode}) returned {'a model' if raised is None else type(raised).__name__} instead of re-raising the fault at pass {k} ({names[k]}, {when})"})
        else:
            rec["nontrivial"].append(f"{prog.pid}|{k}|{when}|{mode}")
    rec["status"] = "violated" if rec["violations"] else "held"
    rec["sample"] = {"program": prog.pid, "pass_index": k, "pass": names[k], "when": when, "policy": mode, "outcome": "raised " + type(raised).__name__ if raised else "model returned"}
    return rec


def _judge_model(prog: programs.Program, model, rec: dict[str, Any], cls: str, seed: int) -> None:
    problems, _ = artefact.validity_problems(model)
    for p in problems:
        rec["violations"].append({"family": "optimizer_fault/default", "program": prog.pid, "kind": "partial_model_invalid:" + p["kind"], "cls": cls, "text": f"{prog.pid}: optimizer aborted at {cls}; returned model is invalid: {p['text'][:250]}"})
    if problems:
        return
    res = programs.differential(prog, [("benign", "benign")], seed=seed, model=model)
    r2 = recs.record_from_differential(prog, res)
    rec["evals"] += r2.get("evals", 0)
    for v in r2.get("violations", []):
        v["family"] = "optimizer_fault/default"
        v["kind"] = "partial_model_differs:" + v["kind"]
        v["cls"] = cls
        rec["violations"].append(v)
    if r2.get("status") == "held" and r2.get("evals"):
        rec["obs"]["partial_models_equivalent_to_callable"] = rec["obs"].get("partial_models_equivalent_to_callable", 0) + 1


def run_case(case: dict[str, Any], tier: str, seed: int) -> dict[str, Any]:
    if case["src"] in ("zoo", "zoo_special"):
        return _zoo_case(case, seed)
    return _fault_case(case, seed)
